#!/usr/bin/env python3
"""regenerates /verif/MANIFEST.json from the table below (kept in one place so that it stays consistent)"""
import json, os
V = os.path.dirname(os.path.dirname(os.path.abspath(__file__)))
TECH = "solver-based bounded checking: symbolic execution of rustc MIR (regenerated from /repo on every run) into z3 (Int/Float32 theories), counterexamples replayed on the native build"
CLAIMED = {
 "C09": dict(
   text="Bounded symbolic model checking of the real arithmetic code: the MIR of Number::{add,sub,mul,div,abs,floor,ceiling,floor_quotient,floor_remainder}, upcast_oprands, the builtins + - * / (n-ary folds) and the numeric arms of eval_primitive is executed symbolically over operands of symbolic variant and full-width i32 components; z3 decides exactness against an oracle over Q (cross-multiplication in Z), bit-exact IEEE binary32 contagion, division-by-exact-zero, and freedom from panics below the property's 2^15 bound. Unit tests sample forty tuples; this covers every tuple in the bound, including both signs of both denominators.",
   note="Trusted: rustc's MIR as the semantics of the code (LLVM/codegen not covered), the ~40 small std models listed in the evidence, z3 (cvc5 re-discharges in thorough). Bounds: returning paths at full i32 width in dev-profile MIR; no-panic clause below 2^15 (2^7 for the two-step floor-quotient/-remainder); folds of 0..3 (quick) / 0..4 (thorough) arguments; release-profile (wrapping) MIR only in thorough. Whole-program evaluation of arithmetic expressions is outside. The encoder is validated on every run against the native build on >=800 concrete tuples.",
   ref="DESIGN.md section 4 (C09)"),
 "C10": dict(
   text="Bounded symbolic model checking of the real comparison code: the MIR of PartialEq/PartialOrd for Number, exact_eqv, the builtins = < > <= >= (typed_comparision!), max/min (first_of_order!) and eqv? is executed symbolically; z3 decides agreement with the mathematical order (sign-aware cross-multiplication in Z for exact operands, IEEE order of the binary32 conversions for mixed ones), n-ary = conjunction of adjacent pairs, max/min = an extreme argument with contagion, eqv? = same exactness and equal, plus antisymmetry and transitivity of the implementation alone. Every internal representation (negative denominators, unreduced ratios) is compared with every other, which the suite's eight tuples cannot do.",
   note="Trusted: rustc MIR semantics, the std models listed in the evidence, z3. Bounds: binary order/equality at full i32 width and all binary32 values; n-ary predicates and max/min for 0..3 (quick) / 0..4 (thorough) exact arguments below 2^15, mixed-exactness arguments through the builtins only pairwise and only in the thorough tier; order laws below 2^15. Feasibility queries that the solver cannot decide quickly are treated as feasible (over-approximation). Evaluation of comparison expressions in whole programs is outside.",
   ref="DESIGN.md section 4 (C10)"),
 "C18": dict(
   engine="kani",
   technique="solver-based bounded checking: Kani/CBMC (SAT) over the compiled code of repl::check_bracket_closed with a symbolic text, against a reference model of the reader's lexical structure that is validated against the real Lexer",
   text="Bounded model checking of the REPL's completeness test: Kani/CBMC decides, for every text of length <= 8 (quick) / <= 16 (thorough) over the 13 characters the reader treats specially (plus a letter, a digit, a blank), that check_bracket_closed(text) is true exactly when the reader's token stream has closed every list it opened; the harness is appended to a scratch copy, unwinding assertions on, kani::cover witnesses required. The oracle (a one-pass model of the lexer's token boundaries) is itself compared with the real Lexer on every string up to length 5/6 on each run. The suite has no test of repl.rs at all.",
   note="Trusted: Kani/CBMC/cadical, the reference model (validated natively against the real Lexer on 4*10^5 / 5*10^6 strings per run, which decides nothing by itself). Texts the reader rejects lexically are excluded. Outside: the rustyline loop run_with_interpreter (accumulation of lines, printing, history) - I/O, not encodable; characters outside the alphabet on the reader's side (digits/signs/dots/#t etc.); a second harness shows check_bracket_closed itself treats any non-special character like a letter.",
   ref="DESIGN.md section 4 (C18)"),
 "C03": dict(
   text="Bounded symbolic model checking of one step of the real mutation primitives from an arbitrary state: the MIR of LexicalScope::{define,get,get_mut,set} is executed from an arbitrary frame forest (every (frame,name) presence bit and value symbolic; chain plus a sibling sharing the root), and z3 decides that set! overwrites exactly the innermost defining cell and nothing else, define touches only its own frame, lookup returns a reference to the innermost cell, unbound => UnboundedSymbol with no change. For vectors the MIR of vector-set!, vector-ref, vector-length, make-vector, vector, ValueReference::{as_ref,as_mut} and the derived Value/ValueReference clone is executed with symbolic length, index (all i32), object and mutability; aliases made by Value::clone and by storing in / fetching from another vector observe the write at k and only there, distinct vectors never, literals reject mutation, bad indices (negative included) are errors that change nothing. One inductive step from an arbitrary state covers histories of any length, which sampled histories cannot.",
   note="Trusted: rustc MIR semantics; the HashMap, RefCell, Rc, Vec models (std is modelled, not verified; borrow flags and reference counts not modelled); z3. Bounds: 4 frames x 2 names (quick), 4 frames x 3 names and a 4-deep chain (thorough); vectors of length <= 3 / 5; elements are integers (the operations never inspect elements). That the evaluator uses these primitives correctly in whole programs (set! -> set, argument passing -> clone, a fresh frame per call) is only covered at skeleton level by C01/C02.",
   ref="DESIGN.md section 4 (C03)"),
 "C08": dict(
   text="Bounded symbolic model checking of the error-detecting code. (1) Arity in every calling context: the MIR of Interpreter::apply_procedure is executed for 3/4 trampoline iterations from an arbitrary procedure and argument vector with its callees replaced by logging stubs; z3 decides that EVERY entry into a procedure body (user or builtin, first or later iteration - i.e. direct, tail, apply, library calls alike) is dominated by an argument-count check of that procedure against those arguments, and that ArgumentMissMatch is returned only for a misfit. (2) Classification: Value::expect_* over an arbitrary Value; 21 builtins over argument vectors of arbitrary variants (a value is returned only if every argument has the demanded type); eval_expression's non-procedure operator and unbound-variable arms; the binding loop cannot fail once the count fits. (3) Vector bounds, literal mutation, assignment to an unbound variable and exact division by zero: the same obligations as C03/C09, re-run here.",
   note="Trusted: rustc MIR semantics, the std models, z3; stubs return every value of their type (a counterexample through a stub is replayed as a real Scheme program before it is reported). Bounds: 3/4 trampoline iterations (iteration >= 2 starts from an arbitrary state), argument vectors of <= 4 (arity) / <= 3 (types) values, vectors <= 3/5. 'Divides by exact zero' = divisor exact zero in exact arithmetic. Whole-program clauses (interpreter stays usable, effects before the error are kept) are outside.",
   ref="DESIGN.md section 4 (C08)"),
 "C02": dict(
   text="Mechanism-level bounded symbolic model checking: (1) eval_tail_expression over an ARBITRARY expression (lazy symbolic AST, conditionals nested <= 3/4) with eval_expression stubbed: a call at the end of the tail spine is returned as a pending TailCall carrying that operator, operands and environment, having evaluated only the tests on the spine, each once, only #f selecting the alternative; (2) apply_scheme_procedure sends the last body expression, and only it, to eval_tail_expression; (3) one arbitrary trampoline iteration of apply_procedure either finishes or re-binds procedure/arguments from the returned tail call and never re-enters the evaluator - so the Rust stack depth at the loop head is iteration-independent, for any N by induction; (4) the native apply builtin (known finding: it enters the procedure through a nested apply_procedure).",
   note="The property's observable (machine stack, live heap, any N) is not a solver variable: this claim is 'the trampoline cannot silently become recursive and tail positions return calls unevaluated', no more. Outside: derived forms keeping tail position (needs the expander on grammar.sld), heap retention (drops not modelled), the measurement itself. Structural counterexamples are confirmed by native loops of 200000 iterations before they are reported.",
   ref="DESIGN.md section 4 (C02)"),
 "C14": dict(
   text="Mechanism-level bounded symbolic model checking of the import bookkeeping: the MIR of Interpreter::eval_import_set (a library name bare and wrapped in only/except/prefix/rename, two levels in thorough) is executed from an ARBITRARY in-progress set with get_library stubbed (any Ok, any Err); z3 decides (a) the set is restored on every exit - Ok, underlying error, cyclic error -, (b) the cyclic error is returned iff the name was in progress on entry and then no load is attempted, (c) the name is in progress while it loads, and the underlying error is passed on unchanged. (a) is the invariant that makes an import's outcome independent of earlier attempts and failures; (b)+(c) give 'cyclic iff a cycle is reachable' by induction over get_library's call tree (argued in DESIGN.md).",
   note="Trusted: rustc MIR semantics, the HashSet model, z3. Outside: termination for arbitrary graphs as a whole-program fact, file lookup relative to the program directory, unreadable/malformed files (filesystem). Structural counterexamples are confirmed by native import-graph probes (retry after failure, 1/2/3-cycles incl. cycles through import sets, diamonds, repeated imports, missing dependencies).",
   ref="DESIGN.md section 4 (C14)"),
 "C01": dict(
   text="Mechanism-level bounded symbolic model checking of ONE structural-induction step of the evaluator: the MIR of eval_expression is executed on an arbitrary Expression node of every kind with its recursive calls, apply_procedure and environment access replaced by logging stubs; z3 decides for every path that operator and operands are evaluated exactly once, operator first, operands left to right, in the same environment, followed by exactly one application to exactly those values (non-procedure operator => located TypeMisMatch; first error wins); that only #f selects the alternative and exactly one arm is evaluated; Symbol => lookup / located UnboundedSymbol; Assignment => value once, then set; lambda => closure over this environment; literals unevaluated. apply_scheme_procedure: i-th formal bound to i-th argument, rest formal to the remaining ones in order, in a fresh child frame of the closure's frame; internal definitions in order before the body and visible to all of it; body in order, last in tail position. Native apply: leading arguments then the list's elements, one application.",
   note="These are the induction steps of 'evaluation yields the value the rules assign'; the induction over programs (and termination) is an argument, not machine-checked. The parser's side (define sugar, formals parsing), the abstract parameter list (ParameterFormals::iter_to_last/len/as_name stubbed consistently) and GenericPair's iterators are outside. Structural counterexamples are confirmed by native evaluator probes before they are reported.",
   ref="DESIGN.md section 4 (C01)"),
}
NA = {}
def main():
    checks = []
    for pid, c in sorted(CLAIMED.items()):
        checks.append({
            "property_id": pid, "quick_cmd": "./check %s --tier quick" % pid, "thorough_cmd": "./check %s --tier thorough" % pid,
            "evidence_file": "/verif/evidence/%s.json" % pid, "replay_cmd_template": "./check replay {path}",
            "engine": c.get("engine", "mirsym"),
            "level_claimed": {"category": "model_checking", "text": c["text"], "design_ref": c["ref"]},
            "level_note": c["note"], "technique": c.get("technique", TECH)})
    props = [json.loads(l)["id"] for l in open(os.path.join(V, "properties.jsonl"))]
    na = []
    for pid in props:
        if pid in CLAIMED:
            continue
        na.append({"property_id": pid, "reason": NA.get(pid, "planned (see DESIGN.md section 5), not built yet - not claimed on paper")})
    m = {
        "version": 1,
        "setup_cmd": "./setup.sh",
        "hooks": {"guard": "none", "enable": "no hooks: verification code exists only in scratch copies of /repo (native runner bin + one pub wrapper appended to repl.rs in the copy)",
                  "baseline_off_cmd": "cd /repo && cargo test --workspace --no-fail-fast --offline", "source_commits": SOURCE_COMMITS, "add_only": True},
        "engines": [
            {"name": "mirsym", "path": "/verif/mirsym", "serves_properties": sorted(p for p, c in CLAIMED.items() if c.get("engine", "mirsym") == "mirsym"),
             "kind_free_text": "symbolic executor over rustc's MIR dump of /repo (nightly -Zunpretty=mir), path enumeration with z3-checked feasibility, obligations discharged by z3 (portfolio: fresh z3 instances, cvc5), native replay runner"},
            {"name": "kani", "path": "/verif/kani", "serves_properties": sorted(p for p, c in CLAIMED.items() if c.get("engine") == "kani"),
             "kind_free_text": "Kani 0.68 / CBMC 6.11 harnesses appended to a scratch copy of /repo"}],
        "checks": checks,
        "not_applicable": na,
        "notes": "exit 0 = held on everything explored (KNOWN-FINDING lines for listed, still-reproducing defects); exit 1 + VIOLATION line = reproduced new violation; exit 2 = inconclusive (encoder/solver could not decide; never reported as success). known_findings.json lists findings and fixed: records.",
    }
    json.dump(m, open(os.path.join(V, "MANIFEST.json"), "w"), indent=1)
SOURCE_COMMITS = ["8a1fb00 fix: floor and ceiling of a ratio round in the right direction for every sign combination",
                  "1b29fe7 fix: compare ratios correctly when their denominators have opposite signs",
                  "4663384 fix: REPL bracket counter follows the reader's lexical structure",
                  "3eab4e1 fix: check the argument count of every procedure the trampoline enters",
                  "165af0a fix: a failed import no longer leaves the library marked as being imported"]
if __name__ == "__main__":
    main()
