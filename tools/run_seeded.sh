#!/bin/bash
# runs every seeded change under /verif/seeded through the quick check of the property it breaks; prints one line per seed
cd /verif
for d in seeded/*/; do
  id=$(basename "$d"); prop=$(python3 -c "import json;m=json.load(open('$d/meta.json'));print(m.get('check_property', m['breaks_property']))")
  if [ -n "${1:-}" ] && [[ "$id" != $1* ]]; then continue; fi
  if grep -q '"status": "obsolete"' "$d/meta.json"; then echo "$id $prop obsolete (see meta.json)"; continue; fi
  out=$(tools/try_patch.sh "$d/patch.diff" "$prop" 2>&1)
  rc=$(echo "$out" | grep -oE "exit=[0-9]+" | head -1)
  echo "$id $prop $rc $(echo "$out" | grep -E '^  [A-Za-z]' | head -1 | cut -c1-160)"
done
