#!/bin/bash
# usage: tools/try_patch.sh <patch.diff> <ID> [<ID>...]   - applies the patch to /repo, runs the quick checks, restores /repo
set -u
patch="$1"; shift
cd /verif
if ! git -C /repo diff --quiet; then echo "/repo has uncommitted changes"; exit 3; fi
git -C /repo apply "$patch" || { echo "patch does not apply"; exit 3; }
trap 'git -C /repo checkout -- . ; git -C /repo clean -fdq src tests 2>/dev/null' EXIT
for id in "$@"; do
  out=$(./check "$id" --tier "${TIER:-quick}" 2>&1); rc=$?
  echo "== $id exit=$rc"
  echo "$out" | grep -E "^VIOLATION|^  [A-Za-z].*::|^INCONCLUSIVE|tier=" | cut -c1-400 | head -8
done
