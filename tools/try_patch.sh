#!/bin/bash
# usage: tools/try_patch.sh <patch.diff> <ID> [<ID>...]
# Runs the quick (or $TIER) checks against a scratch copy of /repo with the patch applied (VERIF_REPO points the checks at the copy),
# so /repo itself is never modified and several patches can be tried in parallel. The copy is removed afterwards.
set -u
patch="$(readlink -f "$1")"; shift
cd /verif
copy=$(mktemp -d /tmp/mutrepo.XXXXXX)
trap 'rm -rf "$copy"' EXIT
(cd /repo && git archive HEAD) | tar -x -C "$copy"
(cd "$copy" && patch -p1 -s < "$patch") || { echo "patch does not apply"; exit 3; }
for id in "$@"; do
  out=$(VERIF_REPO="$copy" VERIF_EVIDENCE_DIR="$copy/evidence" ./check "$id" --tier "${TIER:-quick}" 2>&1); rc=$?
  echo "== $id exit=$rc"
  echo "$out" | grep -E "^VIOLATION|^  [A-Za-z].*::|^INCONCLUSIVE|tier=" | cut -c1-420 | head -${LINES_MAX:-8}
done
