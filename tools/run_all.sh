#!/bin/bash
# runs every claimed check (quick tier by default) and prints one line each; usage: tools/run_all.sh [seed] [tier]
cd /verif
seed="${1:-0}"; tier="${2:-quick}"
for id in $(python3 -c "import json;print(' '.join(c['property_id'] for c in json.load(open('MANIFEST.json'))['checks']))"); do
  s=$(date +%s); out=$(VERIF_SEED=$seed ./check $id --tier $tier 2>&1); rc=$?; e=$(date +%s)
  echo "$id seed=$seed rc=$rc $((e-s))s | $(echo "$out" | tail -1 | cut -c1-160)"
done
