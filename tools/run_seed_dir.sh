#!/bin/bash
# usage: tools/run_seed_dir.sh <dir with 1/ 2/ 3/ ...> <ID>   - confirm + run every seed of a directory, one line each
cd /verif
d="$1"; id="$2"
for n in $(ls "$d" | grep -E '^[0-9]+$'); do
  conf=$(tools/confirm_seed.sh "$d/$n" ${3:-} 2>&1 | tail -1)
  out=$(tools/try_patch.sh "$d/$n/patch.diff" "$id" 2>&1)
  rc=$(echo "$out" | grep -oE "exit=[0-9]+" | head -1)
  echo "$id/$n $conf $rc | $(echo "$out" | grep -E '^  [A-Za-z]|^INCONC' | head -1 | cut -c1-220)"
done
