#!/bin/bash
# usage: tools/confirm_seed.sh <seed dir with patch.diff + demo.rs> [<file to append demo to, e.g. src/repl.rs>]
# Confirms in a scratch worktree of /repo (removed afterwards): (1) the patch applies and the crate builds, (2) the pinned suite still
# passes with the patch, (3) the demonstration fails with the patch, (4) the demonstration passes without it.
set -u
d="$(readlink -f "$1")"; append="${2:-}"
wt=$(mktemp -d /tmp/seedwt.XXXXXX); rmdir "$wt"
git -C /repo worktree add -q --detach "$wt" HEAD || exit 3
trap 'git -C /repo worktree remove --force "$wt" 2>/dev/null; rm -rf "$wt"' EXIT
export CARGO_TARGET_DIR=/verif/.cache/target-seed CARGO_NET_OFFLINE=true
cd "$wt"
put_demo() { if [ -n "$append" ]; then cat "$d/demo.rs" >> "$append"; else cp "$d/demo.rs" tests/seed_demo.rs; fi; }
del_demo() { if [ -n "$append" ]; then git checkout -q -- "$append"; else rm -f tests/seed_demo.rs; fi; }
demo_cmd() { if [ -n "$append" ]; then cargo test --offline --lib seed_demo 2>&1; else cargo test --offline --test seed_demo 2>&1; fi; }
git apply "$d/patch.diff" || { echo "RESULT patch does not apply"; exit 1; }
suite=$(cargo test --workspace --no-fail-fast --offline 2>&1); src=$?
npass=$(echo "$suite" | grep -E "^test result" | awk '{s+=$4} END {print s}')
nfail=$(echo "$suite" | grep -E "^test result" | awk '{s+=$6} END {print s}')
put_demo; with=$(demo_cmd); wrc=$?
del_demo; git checkout -q -- . ; 
put_demo; without=$(demo_cmd); worc=$?
del_demo
echo "RESULT suite_with_patch: rc=$src passed=$npass failed=$nfail | demo_with_patch: rc=$wrc ($(echo "$with" | grep -E '^test result' | tail -1)) | demo_without_patch: rc=$worc ($(echo "$without" | grep -E '^test result' | tail -1))"
if [ "$src" = 0 ] && [ "$nfail" = 0 ] && [ "$wrc" != 0 ] && [ "$worc" = 0 ]; then echo "CONFIRMED"; else echo "NOT-CONFIRMED"; fi
