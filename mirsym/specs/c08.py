"""C08 - run-time errors are detected and classified (kernel + stubs).   (DESIGN.md section 4, C08)"""
import random

import z3

from ..core import Adt, Lazy, Ref, Cell, SeqObj, Opaque, Unsupported
from ..harness import hexs
from ..mir import ENUMS
from . import numlib as nl
from . import skel


def native_forms(nat, text):
    out = nat.cmd("eval %s" % hexs(text))
    return [f.strip() for f in out.split(" ;; ")]


# ================================================================================================ 1. arity in every calling context
def spec_arity(chk, K):
    ex = chk.executor(True)
    nat = chk.ws.runner("dev")
    unit = "Interpreter::apply_procedure (trampoline, %d iterations, callees stubbed)" % K
    chk.region_ns = {}
    seen = {"paths": 0}

    def on_path(rv, events, ar, info):
        chk.path(unit)
        enters = [e for e in events if e["kind"] in ("enter_scheme", "enter_builtin")]
        # (a) every entry into a procedure body is dominated by an arity check of THAT procedure against THOSE arguments
        for e in enters:
            fx, va = ar.of(e["proc"])
            nargs = skel.seq_len_term(e["args"])
            it = int(e["proc"][4:])
            inputs = {"fixed": fx, "variadic": va, "nargs": nargs}

            def replay(vals, e=e, it=it):
                prog = skel.arity_program(e["kind"], it, vals["fixed"], vals["variadic"], vals["nargs"])
                if prog is None:
                    return False, "no builtin with parameter shape (%d,%s) to replay with" % (vals["fixed"], vals["variadic"])
                text, idx = prog
                forms = native_forms(nat, text)
                got = forms[idx] if idx < len(forms) else "missing"
                bad = not got.startswith("ERR ArgumentMissMatch")
                return bad, "program %r: the call with %d argument(s) to a procedure taking %d%s gives %s (expected an argument-count error)" % (
                    text, vals["nargs"], vals["fixed"], "+rest" if vals["variadic"] else "", " ".join(got.split()[:3]))

            label = "arity checked before entering the procedure (%s, trampoline iteration %s)" % ("user procedure" if e["kind"] == "enter_scheme" else "builtin", "1" if it == 0 else ">=2")
            chk.oblige(ex, unit, label, skel.arity_ok(fx, va, nargs), inputs, replay)
        # (b) an argument-count error is returned only for a procedure whose parameter list does not accept the arguments,
        #     and that procedure is not entered
        is_arity_err = isinstance(rv, Adt) and rv.variant == "Err" and not isinstance(rv.fields[0], Opaque) and nl.err_kind(ex, rv.fields[0]) == "ArgumentMissMatch"
        if is_arity_err:
            j = len(enters)
            fxj, vaj = ar.of("proc%d" % j)
            nj = skel.seq_len_term(info["args"]["args%d" % j])
            inputs = {"fixed": fxj, "variadic": vaj, "nargs": nj}

            def replayb(vals, j=j):
                text, idx = skel.arity_program("enter_scheme", j, vals["fixed"], vals["variadic"], vals["nargs"])
                forms = native_forms(nat, text)
                got = forms[idx]
                ok_arity = vals["nargs"] >= vals["fixed"] and (vals["nargs"] <= vals["fixed"] or vals["variadic"])
                bad = got.startswith("ERR ArgumentMissMatch") == ok_arity
                return bad, "program %r gives %s" % (text, " ".join(got.split()[:3]))

            chk.oblige(ex, unit, "ArgumentMissMatch only when the argument count does not fit the procedure about to be entered",
                       z3.Not(skel.arity_ok(fxj, vaj, nj)), inputs, replayb)
        # (c) the trampoline never re-enters the evaluator recursively (shared with C02)
        rec = [e for e in events if e["kind"] == "recursive_call"]
        if rec:
            chk.oblige(ex, unit, "no recursive evaluator call inside the trampoline", z3.BoolVal(False), {}, lambda vals: (False, "structural"))

    ex.panic_hook = lambda info: chk.oblige(ex, unit, "no-panic in the trampoline itself", z3.BoolVal(False), {}, lambda vals: (False, "structural"))
    r = skel.run_apply_procedure(chk, ex, K, on_path)
    chk.notes.append("apply_procedure: exploration cut after %d trampoline iterations on %d path(s) (stated bound; iteration >= 2 starts from an arbitrary procedure/argument pair)" % (K, r["cuts"]))


# ================================================================================================ 2. classification
VARIANT_TOKEN = {"Number": None, "Boolean": "B 1", "Character": "C 97", "String": "S 61", "Symbol": "Y 61", "Procedure": "P 636172", "Vector": "VM 0",
                 "Pair": "N", "Transformer": "T", "Void": "U"}
NUMTOKEN = {"Integer": "I 1", "Real": "F 3fc00000", "Rational": "Q 1 2"}


class AnyValue:
    """an arbitrary Value: symbolic variant, symbolic number variant and integer payload"""

    def __init__(self, ex, name):
        self.name = name
        self.obj = Lazy("values::Value<R>", name)
        self.tag = ex.lazy_tag(self.obj)
        self.num = Lazy("values::Number<R>", name + ".Number.0")
        self.obj.pv["Number"] = {0: self.num}
        self.ntag = ex.lazy_tag(self.num)
        self.i = ex.project(("DC", self.num, "Integer"), ("f", 0, "i32"))
        self.b = ex.project(("DC", self.obj, "Boolean"), ("f", 0, "bool"))

    def is_(self, variant):
        return self.tag == ENUMS["Value"].index(variant)

    def is_num(self, nvariant=None):
        c = self.is_("Number")
        return c if nvariant is None else z3.And(c, self.ntag == ENUMS["Number"].index(nvariant))

    def inputs(self, pfx):
        return {pfx + "v": self.tag, pfx + "n": self.ntag, pfx + "i": self.i, pfx + "b": self.b}

    def token(self, vals, pfx):
        v = ENUMS["Value"][vals[pfx + "v"]]
        if v == "Number":
            n = ENUMS["Number"][vals[pfx + "n"]]
            return "I %d" % vals[pfx + "i"] if n == "Integer" else NUMTOKEN[n]
        if v == "Boolean":
            return "B %d" % (1 if vals[pfx + "b"] else 0)
        return VARIANT_TOKEN[v]


EXPECT = {"number": lambda a: a.is_num(), "integer": lambda a: a.is_num("Integer"), "real": lambda a: a.is_num("Real"), "vector": lambda a: a.is_("Vector"),
          "list": lambda a: a.is_("Pair"), "string": lambda a: a.is_("String"), "symbol": lambda a: a.is_("Symbol"), "procedure": lambda a: a.is_("Procedure"),
          "boolean": lambda a: a.is_("Boolean")}


def spec_expect(chk):
    nat = chk.ws.runner("dev")
    for which, conform in EXPECT.items():
        ex = chk.executor(True)
        a = AnyValue(ex, "a")
        f = ex.resolve("values::Value::<R>::expect_%s" % which)
        unit = "Value::expect_%s" % which
        inputs = a.inputs("a")
        chk.region_ns = {}

        def replay(vals, which=which, a=a):
            tok = a.token(vals, "a")
            out = nat.cmd("expect %s %s" % (which, tok))
            v = ENUMS["Value"][vals["av"]]
            n = ENUMS["Number"][vals["an"]]
            ok = {"number": v == "Number", "integer": v == "Number" and n == "Integer", "real": v == "Number" and n == "Real", "vector": v == "Vector",
                  "list": v == "Pair", "string": v == "String", "symbol": v == "Symbol", "procedure": v == "Procedure", "boolean": v == "Boolean"}[which]
            good = out.startswith("OK") if ok else out.startswith("ERR TypeMisMatch")
            return not good, "expect_%s(%s) -> %s" % (which, tok, " ".join(out.split()[:2]))

        ex.panic_hook = lambda info, ex=ex, unit=unit, inputs=inputs, replay=replay: chk.oblige(ex, unit, "no-panic", z3.BoolVal(False), inputs, replay)
        for rv in ex.run(f, [a.obj]):
            chk.path(unit)
            if rv.variant == "Ok":
                post = conform(a)
            else:
                post = z3.And(z3.Not(conform(a)), z3.BoolVal(nl.err_kind(ex, rv.fields[0]) == "TypeMisMatch"))
            chk.oblige(ex, unit, "Ok(payload) iff the variant matches, TypeMisMatch otherwise", post, inputs, replay)


# (scheme name, MIR function, per-argument requirement or '*' for every argument, minimum arguments, maximum explored)
TYPED_BUILTINS = [
    ("+", "base::add", "*number", 0), ("-", "base::sub", "*number", 1), ("*", "base::mul", "*number", 0), ("/", "base::div", "*number", 1),
    ("abs", "base::abs", ["number"], 1), ("floor", "base::floor", ["number"], 1), ("ceiling", "ceiling", ["number"], 1),
    ("floor-quotient", "floor_quotient", ["number", "number"], 2), ("floor-remainder", "floor_remainder", ["number", "number"], 2),
    ("max", "base::max", "*number", 1), ("min", "base::min", "*number", 1),
    ("=", "equals", "*number", 0), ("<", "less", "*number", 0), (">", "greater", "*number", 0), ("<=", "less_equal", "*number", 0), (">=", "greater_equal", "*number", 0),
    ("vector-ref", "vector_ref", ["vector", "integer"], 2), ("vector-set!", "vector_set", ["vector", "integer", "any"], 3),
    ("vector-length", "vector_length", ["vector"], 1), ("make-vector", "make_vector", ["integer", "any"], 2),
    ("boolean=?", "boolean_equal", "*boolean", 0),
]
CMP = {"=": lambda a, b: a.i == b.i, "<": lambda a, b: a.i < b.i, ">": lambda a, b: a.i > b.i, "<=": lambda a, b: a.i <= b.i, ">=": lambda a, b: a.i >= b.i,
       "boolean=?": lambda a, b: a.b == b.b}


def spec_builtin_types(chk, N):
    nat = chk.ws.runner("dev")
    for sname, fname, req, minargs in TYPED_BUILTINS:
        ex = chk.executor(True)
        ex.from_elem_max = 2
        ex.from_elem_overflow = lambda ex_, n: None
        n_args = N if isinstance(req, str) else len(req)
        args = [AnyValue(ex, "a%d" % k) for k in range(n_args)]
        ln = z3.Int("argc")
        if isinstance(req, str):
            ex.ctx.add(ln >= minargs, ln <= n_args)
            reqs = [req[1:]] * n_args
        else:
            ex.ctx.add(ln == n_args)
            reqs = req
        for a in args:
            # number payloads: integers only for the arithmetic (variant of the number is not what is classified here),
            # all three number variants where an exact integer is demanded; vectors are empty mutable vectors
            if "integer" not in reqs:
                ex.ctx.add(z3.Implies(a.is_num(), a.ntag == ENUMS["Number"].index("Integer")))
            ex.ctx.add(a.i > -100, a.i < 100)
            a.obj.pv["Vector"] = {0: Adt("ValueReference", "Mutable", [Ref(Cell(SeqObj(a.name + ".vec", "?", [], 0, 0)))])}
        seq = SeqObj("args", "values::Value<R>", [Cell(a.obj) for a in args], ln, n_args)
        f = ex.resolve(fname)
        unit = "builtin (%s ...) argument types" % sname
        inputs = {"argc": ln}
        for k, a in enumerate(args):
            inputs.update(a.inputs("a%d" % k))
        conf = []
        for k, (a, r) in enumerate(zip(args, reqs)):
            c = z3.BoolVal(True) if r == "any" else EXPECT[r](a)
            conf.append(z3.Or(ln <= k, c))
        all_conform = z3.And(*conf)
        chk.region_ns = {}
        if sname in CMP:
            # F7: the n-ary comparisons answer #f at the first failing pair without looking at later arguments
            okty = (lambda a: a.is_("Boolean")) if sname == "boolean=?" else (lambda a: a.is_num())
            decided = []
            for k in range(1, n_args):
                earlier_fail = z3.Or(*[z3.And(okty(args[j]), okty(args[j + 1]), z3.Not(CMP[sname](args[j], args[j + 1]))) for j in range(0, k - 1)]) if k >= 2 else z3.BoolVal(False)
                decided.append(z3.And(ln > k, z3.Not(okty(args[k])), earlier_fail))
            chk.region_ns["wrong_type_only_after_a_failing_pair"] = z3.And(z3.Or(*decided) if decided else z3.BoolVal(False),
                                                                           *[z3.Or(ln <= k, okty(args[k]), decided[k - 1] if k >= 1 else z3.BoolVal(False)) for k in range(n_args)])

        def replay(vals, sname=sname, args=args, reqs=reqs):
            n = vals["argc"]
            toks = [args[k].token(vals, "a%d" % k) for k in range(n)]
            out = nat.cmd("builtin %s %d %s" % (hexs(sname), n, " ".join(toks))).split(" ;;")[0]
            def conforms(k):
                v = ENUMS["Value"][vals["a%dv" % k]]
                nn = ENUMS["Number"][vals["a%dn" % k]]
                r = reqs[k]
                return {"any": True, "number": v == "Number", "integer": v == "Number" and nn == "Integer", "vector": v == "Vector", "boolean": v == "Boolean"}[r]
            allc = all(conforms(k) for k in range(n))
            bad = (not allc) and not out.startswith("ERR TypeMisMatch")
            return bad, "(%s %s) -> %s%s" % (sname, " ".join(toks), " ".join(out.split()[:3]), "" if allc else "   (an argument has the wrong type: expected a TypeMisMatch error)")

        ex.panic_hook = None
        for rv in ex.run(f, [seq]):
            chk.path(unit)
            if rv.variant == "Ok":
                chk.oblige(ex, unit, "a value is returned only if every argument has the demanded type", all_conform, inputs, replay)
            else:
                e = rv.fields[0]
                kind = nl.err_kind(ex, e)
                if kind == "TypeMisMatch":
                    chk.oblige(ex, unit, "TypeMisMatch is reported only for an argument of the wrong type", z3.Not(all_conform), inputs, lambda vals: (False, "classification only"))


def run(chk):
    rng = random.Random(chk.seed)
    thorough = chk.tier == "thorough"
    K = 4 if thorough else 3
    L = 5 if thorough else 3
    chk.bounds = {"trampoline iterations": K, "argument vectors": "0..%d arguments" % skel.MAXARGS, "builtin argument vectors": "0..3 arguments of arbitrary variant",
                  "vectors": "length <= %d, all i32 indices" % L, "division": "all exact operands (full width)"}
    chk.assumptions += [
        "callees of the trampoline (apply_scheme_procedure, eval_procedure_call, BuiltinProcedureBody::apply, ParameterFormals::len) are nondeterministic stubs returning every value of their type; apply (the builtin) and library procedures reach procedures through the same apply_procedure, so 'direct / tail / apply / library' reduce to first vs later trampoline iteration",
        "'divides by exact zero' is read as: divisor exact zero in exact arithmetic (C09 assigns (/ 1.5 0) its IEEE value)",
        "two faults in one call (e.g. (/ 0 0 #t)) may be reported as either kind",
        "'the interpreter keeps the effects completed before the error and evaluates later forms normally' is a whole-program statement: outside (only the units' own error paths are covered)",
    ]
    chk.run_probes("procedure shapes", skel.shape_probe_selfcheck, chk.ws.runner("dev"), 6 * len(skel.SHAPES))
    chk.step("arity", spec_arity, chk, K)
    from .c01_parts import spec_apply_scheme, spec_eval_expression
    chk.step("binding loop", spec_apply_scheme, chk, "", ("nopanic",))
    chk.step("expect_*", spec_expect, chk)
    chk.step("builtin argument types", spec_builtin_types, chk, 3)
    chk.step("operator / unbound variable", spec_eval_expression, chk, ("errors",))
    from .c01_parts import spec_definition, eval_probe, EVAL_PROBES
    chk.run_probes("evaluator", eval_probe, chk.ws.runner("dev"), len(EVAL_PROBES))
    chk.step("a failing definition binds nothing", spec_definition, chk)
    # vector bounds / literal mutation / unbound assignment / exact division by zero: the same obligations as in C03 and C09
    from . import c03, c09
    chk.step("vector index and mutability", c03.spec_vector_set, chk, L, "clone")
    chk.step("vector-ref bounds", c03.spec_vector_ref, chk, L)
    chk.step("make-vector length", c03.spec_make_vector, chk, L)
    chk.step("assignment to an unbound variable", c03.spec_scope, chk, [-1, 0, 1, 0], 2)
    chk.step("division by exact zero (Number::div)", c09.spec_binop, chk, "div")
    for which in ("floor_quotient", "floor_remainder"):
        chk.step("division by exact zero (%s)" % which, c09.spec_floor_qr, chk, which)
    chk.step("division by exact zero (builtin /)", c09.spec_fold, chk, "/", "base::div", 3)
