"""Symbolic and concrete views of ruschm's Number/Value for the numeric specs (C09, C10) and others."""
import random
import struct
from fractions import Fraction

import numpy as np
import z3

from ..core import Adt, Lazy, Tup, Ref, Cell, SeqObj, StrVal, Opaque, Unsupported
from ..mir import ENUMS

F32 = z3.Float32()
B15 = 2**15
I32 = (-2**31, 2**31 - 1)


def nidx(v):
    return ENUMS["Number"].index(v)


def vidx(v):
    return ENUMS["Value"].index(v)


class NumIn:
    """an arbitrary Number<f32>: symbolic variant and components"""

    def __init__(self, ex, name, allow=("Integer", "Rational", "Real")):
        self.name = name
        self.obj = Lazy("values::Number<R>", name)
        self.tag = ex.lazy_tag(self.obj)
        self.i = ex.project(("DC", self.obj, "Integer"), ("f", 0, "i32"))
        self.a = ex.project(("DC", self.obj, "Rational"), ("f", 0, "i32"))
        self.b = ex.project(("DC", self.obj, "Rational"), ("f", 1, "i32"))
        self.r = ex.project(("DC", self.obj, "Real"), ("f", 0, "R"))
        self.allow = allow
        ex.ctx.add(z3.Or(*[self.tag == nidx(v) for v in allow]))
        self.is_int = self.tag == nidx("Integer")
        self.is_rat = self.tag == nidx("Rational")
        self.is_real = self.tag == nidx("Real")
        self.exact = z3.Not(self.is_real)
        self.n = z3.If(self.is_int, self.i, self.a)
        self.d = z3.If(self.is_int, z3.IntVal(1), self.b)

    def valid(self):
        """what the reader and the operations can produce: a ratio's denominator is never 0 (it may be negative)"""
        return z3.Implies(self.is_rat, self.b != 0)

    def within(self, bound):
        return z3.And(self.i > -bound, self.i < bound, self.a > -bound, self.a < bound, self.b > -bound, self.b < bound)

    def inputs(self, pfx):
        return {pfx + "t": self.tag, pfx + "i": self.i, pfx + "a": self.a, pfx + "b": self.b, pfx + "r": self.r}

    def region_ns(self, pfx):
        return {pfx + "n": self.n, pfx + "d": self.d, pfx + "_int": self.is_int, pfx + "_rat": self.is_rat, pfx + "_real": self.is_real,
                pfx + "_exact": self.exact}

    def as_fp(self):
        """the documented conversion to binary32: i32 -> f32 RNE, ratio = fl(a)/fl(b)"""
        from ..core import i32_to_f32 as conv
        return z3.If(self.is_real, self.r, z3.If(self.is_int, conv(self.i), z3.fpDiv(z3.RNE(), conv(self.a), conv(self.b))))


def value_of_number(ex, num, name):
    """Value::Number(num) as an input object"""
    return Adt("Value", "Number", [num.obj if isinstance(num, NumIn) else num])


class ValIn:
    """an arbitrary Value<f32>: symbolic variant; the Number payload is a NumIn"""

    def __init__(self, ex, name, allow_num=("Integer", "Rational", "Real")):
        self.name = name
        self.obj = Lazy("values::Value<R>", name)
        self.tag = ex.lazy_tag(self.obj)
        self.num = NumIn(ex, name + ".Number.0", allow_num)
        self.obj.pv["Number"] = {0: self.num.obj}
        self.is_number = self.tag == vidx("Number")

    def inputs(self, pfx):
        d = {pfx + "v": self.tag}
        d.update(self.num.inputs(pfx))
        return d


def seq_of(ex, name, items, ln, elem_ty="values::Value<R>"):
    """argument vector with symbolic length ln (z3 Int constrained by the caller) over the given item objects"""
    return SeqObj(name, elem_ty, [Cell(x) for x in items], ln, len(items))


# ------------------------------------------------------------------------------------------------ decoding symbolic results
def result_number(ex, v):
    """(kind, n, d, r): kind in {'Integer','Rational','Real'} of a Number result with concrete variant"""
    if isinstance(v, Adt) and v.ty == "Number":
        if v.variant == "Integer":
            return "Integer", v.fields[0], z3.IntVal(1), None
        if v.variant == "Rational":
            return "Rational", v.fields[0], v.fields[1], None
        return "Real", None, None, v.fields[0]
    raise Unsupported("result is not a concrete-variant Number: %r" % (v,))


def number_cases(ex, v):
    """like result_number, but also for a result that is an (input) number of symbolic variant: one case per feasible variant"""
    if isinstance(v, Lazy):
        tag = ex.lazy_tag(v)
        names = ENUMS["Number"]
        for i in ex.branches([tag == k for k in range(len(names))]):
            nm = names[i]
            if nm == "Integer":
                yield "Integer", ex.project(("DC", v, nm), ("f", 0, "i32")), z3.IntVal(1), None
            elif nm == "Rational":
                yield "Rational", ex.project(("DC", v, nm), ("f", 0, "i32")), ex.project(("DC", v, nm), ("f", 1, "i32")), None
            else:
                yield "Real", None, None, ex.project(("DC", v, nm), ("f", 0, "R"))
        return
    yield result_number(ex, v)


def fp_same(a, b):
    """bit-equality, all NaNs identified (SMT-LIB FP has one NaN)"""
    return a == b


def canon_concrete(ex, v):
    """canonical string (the native runner's notation) of a symbolic result whose inputs were concrete"""
    if isinstance(v, Adt):
        if v.ty == "Result":
            if v.variant == "Ok":
                return "OK " + canon_concrete(ex, v.fields[0])
            return "ERR " + err_kind(ex, v.fields[0])
        if v.ty == "Number":
            if v.variant == "Integer":
                return "I %d" % cint(v.fields[0], ex)
            if v.variant == "Rational":
                return "Q %d %d" % (cint(v.fields[0], ex), cint(v.fields[1], ex))
            return "F %s" % fp_bits(v.fields[0])
        if v.ty == "Value":
            if v.variant == "Number":
                return canon_concrete(ex, v.fields[0])
            if v.variant == "Boolean":
                return "B %d" % (1 if z3.is_true(z3.simplify(v.fields[0])) else 0)
            if v.variant == "Void":
                return "U"
            return v.variant
        if v.ty == "Option":
            return "None" if v.variant == "None" else "Some " + canon_concrete(ex, v.fields[0])
        if v.ty == "Ordering":
            return "O " + v.variant
    if z3.is_bool(v):
        return "B %d" % (1 if z3.is_true(z3.simplify(v)) else 0)
    return repr(v)


def err_kind(ex, e):
    """variant name of the LogicError inside a SchemeError value (Located<ErrorData>)"""
    e = ex.deref(e)
    try:
        data = e.fields[0] if isinstance(e, Adt) and e.variant is None else e
        if isinstance(data, Adt) and data.ty == "ErrorData":
            inner = data.fields[0]
            if isinstance(inner, Adt) and inner.ty in ("LogicError", "SyntaxError"):
                return inner.variant
            return data.variant
    except Exception:
        pass
    return "?" + repr(e)[:80]


def cint(t, ex=None):
    t = z3.simplify(t) if not isinstance(t, int) else t
    if isinstance(t, int):
        return t
    if z3.is_int_value(t):
        return t.as_long()
    if ex is not None:
        # determined by the (concrete) inputs through definitional constraints: ask the solver, and make sure it is unique
        if ex.ctx.check() == z3.sat:
            v = ex.ctx.model().eval(t, model_completion=True)
            if z3.is_int_value(v) and ex.ctx.check(t != v) == z3.unsat:
                return v.as_long()
    raise Unsupported("not concrete: %s" % t)


def fp_bits(t):
    t = z3.simplify(z3.fpToIEEEBV(t))
    if z3.is_bv_value(t):
        v = t.as_long()
        if (v & 0x7f800000) == 0x7f800000 and (v & 0x7fffff):
            return "NaN"
        return "%08x" % v
    # NaN has no unique bit pattern in SMT-LIB
    return "NaN"


# ------------------------------------------------------------------------------------------------ concrete numbers
def conc_number(kind, *args):
    if kind == "I":
        return Adt("Number", "Integer", [z3.IntVal(args[0])])
    if kind == "Q":
        return Adt("Number", "Rational", [z3.IntVal(args[0]), z3.IntVal(args[1])])
    if kind == "F":
        return Adt("Number", "Real", [f32_const(args[0])])
    raise ValueError(kind)


def f32_const(bits):
    return z3.fpBVToFP(z3.BitVecVal(bits, 32), F32)


def tok_number(num):
    """runner token of a concrete number tuple ('I',n) / ('Q',a,b) / ('F',bits)"""
    if num[0] == "I":
        return "I %d" % num[1]
    if num[0] == "Q":
        return "Q %d %d" % (num[1], num[2])
    return "F %08x" % num[1]


def num_from_model(vals, pfx):
    """concrete number tuple from a model's input values"""
    t = vals[pfx + "t"]
    name = ENUMS["Number"][t]
    if name == "Integer":
        return ("I", vals[pfx + "i"])
    if name == "Rational":
        return ("Q", vals[pfx + "a"], vals[pfx + "b"])
    r = vals[pfx + "r"]
    bits = int(r["f32_bits"], 16) if isinstance(r, dict) else 0x7fc00000
    return ("F", bits)


def f32_of_bits(bits):
    return np.frombuffer(struct.pack("<I", bits), dtype=np.float32)[0]


def bits_of_f32(x):
    return struct.unpack("<I", np.float32(x).tobytes())[0]


def py_value(num):
    """exact Fraction for exact numbers, numpy float32 for reals"""
    if num[0] == "I":
        return Fraction(num[1])
    if num[0] == "Q":
        return Fraction(num[1], num[2])
    return f32_of_bits(num[1])


def py_to_f32(num):
    """the documented conversion"""
    with np.errstate(all="ignore"):
        if num[0] == "I":
            return np.float32(num[1])
        if num[0] == "Q":
            return np.float32(num[1]) / np.float32(num[2])
        return f32_of_bits(num[1])


def parse_native_number(tokens):
    """tokens after 'OK': returns number tuple"""
    if tokens[0] == "I":
        return ("I", int(tokens[1]))
    if tokens[0] == "Q":
        return ("Q", int(tokens[1]), int(tokens[2]))
    if tokens[0] == "F":
        return ("F", int(tokens[1], 16))
    return None


def norm_native(out):
    """normalise the runner's answer for comparison with canon_concrete"""
    out = out.split(" ;;")[0].strip()
    t = out.split()
    if not t:
        return out
    if t[0] == "PANIC" or t[0] == "ABORT":
        return "PANIC"
    if t[0] == "ERR":
        return "ERR " + t[1]
    if t[0] == "OK" and len(t) >= 3 and t[1] == "F":
        bits = int(t[2], 16)
        if (bits & 0x7f800000) == 0x7f800000 and (bits & 0x7fffff):
            return "OK F NaN"
    return out


GRID_INTS = [0, 1, -1, 2, -2, 3, 7, -7, 5, -5, 28, -43, -15, 25, -25, 33, 49, -49, 32767, -32767, 32768, 46341, 65536, 2**24, 2**24 + 1,
             2**31 - 1, -2**31, -2**31 + 1]
GRID_REALS = [0x00000000, 0x80000000, 0x3f800000, 0xbf800000, 0x40000000, 0x3f000000, 0x40733333, 0xc0a9999a, 0x4b800000, 0x4b800001,
              0x7f800000, 0xff800000, 0x7fc00000, 0x00000001, 0x7f7fffff, 0x3e000000, 0xc0400000]


def grid_numbers(rng, n_random=20, exact_only=False):
    out = []
    for i in GRID_INTS[:14]:
        out.append(("I", i))
    for a in (1, -1, 2, -3, 4, 7, -43, 28, -15, 25, 33, 5, 0):
        for b in (1, 2, -2, 3, 7, 5, -4):
            out.append(("Q", a, b))
    out += [("I", 2**31 - 1), ("I", -2**31), ("Q", 2**31 - 1, 2), ("Q", -2**31, -1), ("Q", 1, -2**31), ("Q", 32767, 32767), ("Q", 46341, 46341)]
    if not exact_only:
        out += [("F", b) for b in GRID_REALS]
    for _ in range(n_random):
        k = rng.random()
        mag = rng.choice([10, 1000, 2**15, 2**20, 2**31 - 1])
        if k < 0.4:
            out.append(("I", rng.randint(-mag, mag)))
        elif k < 0.85 or exact_only:
            b = rng.randint(-mag, mag) or 1
            out.append(("Q", rng.randint(-mag, mag), b))
        else:
            out.append(("F", rng.getrandbits(32)))
    return out
