"""C02 - tail calls run in bounded space (mechanism level).   (DESIGN.md section 4, C02)"""
import z3

from ..core import Adt, Lazy, Ref, Cell, SeqObj, Opaque, Unsupported
from ..harness import hexs
from ..mir import ENUMS
from . import skel
from . import numlib as nl
from .c01_parts import spec_apply_scheme, spec_native_apply

_DONE = "OK Y " + "done".encode().hex()
TAIL_PROBES = [
    ("(define (loop n acc) (if (= n 0) acc (loop (- n 1) (+ acc 1))))\n(loop 200000 0)", "OK I 200000"),
    ("(define (loop2 n) (if (> n 0) (if (= 0 0) (if (> n -1) (loop2 (- n 1)) 'no) 'no) 'done))\n(loop2 200000)", "OK Y " + "done".encode().hex()),
    ("(define (f n) (if (> n 0) (f (- n 1))))\n(f 200000)", "OK U"),
    ("(define (ev? n) (if (= n 0) #t (od? (- n 1)))) (define (od? n) (if (= n 0) #f (ev? (- n 1))))\n(ev? 200001)", "OK B 0"),
    ("(define c 0) (define (t) (set! c (+ c 1)) #t) (define (g) (if (t) 1 2))\n(g)\nc", "OK I 1"),
    ("(define (h x) (if x 'yes 'no))\n(vector (h 0) (h '()) (h \"\") (h #f))", "OK VM 4 Y 796573 Y 796573 Y 796573 Y 6e6f"),
    ("(define (k n) (if (> n 0) (k (- n 1)) (if #f #f)))\n(k 10)", "OK U"),
    # bodies with internal definitions and several expressions keep their last expression in tail position
    ("(define c 0)\n(define (lp n) (define k 1) (set! c (+ c 0)) (if (= n 0) 'done (lp (- n k))))\n(lp 200000)", "OK Y " + "done".encode().hex()),
    # variadic and zero-argument procedures, a builtin reached by a tail call
    ("(define (lv . xs) (if (= (car xs) 0) 'done (lv (- (car xs) 1) 7)))\n(lv 200000)", "OK Y " + "done".encode().hex()),
    ("(define (tb n) (if (> n 0) (tb (- n 1)) (+ n 5)))\n(tb 200000)", "OK I 5"),
    # an immediately applied lambda (and let) in tail position: the operands are evaluated in the CALLER's environment
    ("(define (f x) (let ((x 10) (y x)) (+ x y)))\n(f 1)", "OK I 11"),
    ("(define (g x) ((lambda (x y) (+ x y)) 10 x))\n(g 1)", "OK I 11"),
    ("(define (h a) ((lambda (a k) (k)) 5 (lambda () a)))\n(h 1)", "OK I 1"),
    # loops through a procedure PARAMETER: the same parameter name designates a different procedure in every frame
    ("(define (ping other n) (if (= n 0) 'ping (other ping (- n 1))))\n(define (pong other n) (if (= n 0) 'pong (other pong (- n 1))))\n(vector (ping pong 4) (ping pong 5) (ping pong 20000))",
     "OK VM 3 Y 70696e67 Y 706f6e67 Y 70696e67"),
    ("(define (a-state next after n acc) (if (= n 0) acc (next after next (- n 1) (+ acc 1))))\n(define (b-state next after n acc) (if (= n 0) acc (next after next (- n 1) (+ acc 10))))\n(vector (a-state b-state a-state 4 0) (a-state b-state a-state 20000 0))",
     "OK VM 2 I 22 I 110000"),
    # parameterless procedures (begin expands to a thunk call), tail sub-forms of the derived forms
    # (20000 iterations: a nesting depth of 1000 already overflows the native stack)
    ("(define n 20000)\n(define (t) (if (= n 0) 'done (begin (set! n (- n 1)) (t))))\n(t)", _DONE),
    ("(define c 20000)\n(define (z) (set! c (- c 1)) (if (= c 0) 'done (z)))\n(z)", _DONE),
    ("(define (lc n) (cond ((= n 0) 'done) (else (lc (- n 1)))))\n(lc 20000)", _DONE),
    ("(define (lw n) (if (= n 0) 'done (when #t n (lw (- n 1)))))\n(lw 20000)", _DONE),
    ("(define (lu n) (if (= n 0) 'done (unless #f n (lu (- n 1)))))\n(lu 20000)", _DONE),
    ("(define (la n) (and #t (if (= n 0) 'done (la (- n 1)))))\n(la 20000)", _DONE),
    ("(define (lo n) (or #f (if (= n 0) 'done (lo (- n 1)))))\n(lo 20000)", _DONE),
    ("(define (ll n) (let ((m (- n 1))) (if (< m 0) 'done (ll m))))\n(ll 20000)", _DONE),
    ("(define (ls n) (let* ((m (- n 1)) (k m)) (if (< k 0) 'done (ls k))))\n(ls 20000)", _DONE),
    ("(define (lk n) (case n ((0) 'done) (else (lk (- n 1)))))\n(lk 20000)", _DONE),
    # the operator of the tail call is itself computed: returned by a call, chosen by an if, fetched from a list, a parameter
    ("(define (mk) loopc)\n(define (loopc n) (if (= n 0) 'done ((mk) (- n 1))))\n(loopc 20000)", _DONE),
    ("(define (sel n) (if (= n 0) 'done ((if (> n 1) sel sel) (- n 1))))\n(sel 20000)", _DONE),
    ("(define (d n) (if (= n 0) 'done ((car hs) (- n 1))))\n(define hs (list d))\n(d 20000)", _DONE),
    ("(define (hp f n) (if (= n 0) 'done (f f (- n 1))))\n(hp hp 20000)", _DONE),
]


_PROBE_CACHE = {}


def tail_probe(nat):
    if id(nat) not in _PROBE_CACHE:
        _PROBE_CACHE[id(nat)] = _tail_probe(nat)
    return _PROBE_CACHE[id(nat)]


def _tail_probe(nat):
    for prog, want in TAIL_PROBES:
        out = [x.strip() for x in nat.cmd("eval %s" % hexs(prog)).split(" ;; ")]
        if out[-1] != want:
            return True, "program %r gives %s (expected %s)" % (prog, out[-1], want)
    return False, "native tail-call probes (deep loops through nested ifs, one-armed if, mutual recursion, single evaluation of the test, truthiness) all behave correctly"


def spec_eval_tail(chk, depth):
    ex = chk.executor(True)
    nat = chk.ws.runner("dev")
    unit = "Interpreter::eval_tail_expression (arbitrary expression, conditionals nested <= %d, eval_expression stubbed)" % depth
    chk.region_ns = {}
    replay = lambda vals: tail_probe(nat)
    BOOL = ENUMS["Value"].index("Boolean")

    def on_path(rv, events, st):
        chk.path(unit)
        evs = [e for e in events if e["kind"] == "eval"]
        oks = [e for e in events if e["kind"] == "eval_ok"]
        errs = [e for e in events if e["kind"] == "eval_err"]
        forb = [e for e in events if e["kind"] == "forbidden_call"]
        envcell = st["env"].cell
        post = [z3.BoolVal(not forb), z3.BoolVal(all(e["env"] is envcell for e in evs))]
        X = "e"
        structural = True
        # walk the spine by the deterministic names of the input's sub-expressions
        values = [o["value"] for o in oks]
        for i, e in enumerate(evs):
            nm = e["expr"].name if isinstance(e["expr"], Lazy) else None
            if nm == X + ".0.Conditional.0.0":
                # a test: the branch taken is told by the next evaluated name / the result; link it to truthiness
                if i < len(values):
                    v = values[i]
                    is_false = z3.And(ex.lazy_tag(v) == BOOL, z3.Not(ex.project(("DC", v, "Boolean"), ("f", 0, "bool"))))
                    nxt = None
                    rest_names = [x["expr"].name for x in evs[i + 1:]] + [result_anchor(ex, rv)]
                    first = next((n for n in rest_names if n), "")
                    if first.startswith(X + ".0.Conditional.0.1"):
                        post.append(z3.Not(is_false))
                        X = X + ".0.Conditional.0.1"
                    elif first.startswith(X + ".0.Conditional.0.2"):
                        post.append(is_false)
                        X = X + ".0.Conditional.0.2.Some.0"
                    else:
                        # no further reference: must be the one-armed if with a false test (Void), checked below
                        post.append(is_false)
                        X = X + ".0.Conditional.0.2<none>"
                else:
                    structural = structural and (i == len(evs) - 1 and len(errs) == 1)
            elif nm == X:
                structural = structural and (i == len(evs) - 1)       # the non-call, non-conditional spine end: evaluated last, once
                body = ex.project(e["expr"], ("f", 0, "parser::ExpressionBody"))
                t = ex.lazy_tag(body)
                post.append(z3.And(t != ENUMS["ExpressionBody"].index("ProcedureCall"), t != ENUMS["ExpressionBody"].index("Conditional")))
            else:
                structural = False
        post.append(z3.BoolVal(structural))
        # result
        if isinstance(rv, Adt) and rv.variant == "Ok":
            ter = rv.fields[0]
            if isinstance(ter, Adt) and ter.variant == "TailCall":
                tc = ter.fields[0]
                pe, operands, env2 = tc.fields[0], tc.fields[1], tc.fields[2]
                ok = (skel.name_of(ex, pe) or "").startswith(X + ".0.ProcedureCall.0") and (skel.name_of(ex, operands) or "").startswith(X + ".0.ProcedureCall.1")
                ok = ok and isinstance(env2, Ref) and env2.cell is envcell and not errs and len(evs) == len(oks)
                # only tests were evaluated
                ok = ok and all((e["expr"].name or "").endswith(".Conditional.0.0") for e in evs)
                post.append(z3.BoolVal(ok))
            elif isinstance(ter, Adt) and ter.variant == "Value":
                v = ter.fields[0]
                if isinstance(v, Adt) and v.variant == "Void":
                    post.append(z3.BoolVal(X.endswith("<none>") and not errs))
                else:
                    post.append(z3.BoolVal(bool(oks) and v is oks[-1]["value"] and evs and evs[-1]["expr"].name == X and not errs))
            else:
                post.append(z3.BoolVal(False))
        else:
            post.append(z3.BoolVal(len(errs) == 1 and isinstance(rv, Adt) and rv.variant == "Err" and rv.fields[0] is errs[0]["error"] and events[-1]["kind"] == "eval_err"))
        chk.oblige(ex, unit, "a call at the end of the tail spine is RETURNED (operator, operands, same environment) having evaluated only the tests on the spine, each once; only #f selects the alternative; other expressions are evaluated once, last",
                   z3.And(*post), {}, replay)

    ex.panic_hook = lambda info: chk.oblige(ex, unit, "no-panic", z3.BoolVal(False), {}, replay)
    cuts = skel.run_eval_tail(chk, ex, depth, on_path)
    chk.notes.append("eval_tail_expression: %d path(s) cut at conditional nesting depth %d (stated assumption on the input expression)" % (cuts, depth))


def result_anchor(ex, rv):
    """name of the input sub-expression the result refers to (for a returned TailCall)"""
    try:
        if isinstance(rv, Adt) and rv.variant == "Ok":
            ter = rv.fields[0]
            if isinstance(ter, Adt) and ter.variant == "TailCall":
                return skel.name_of(ex, ter.fields[0].fields[0])
    except Exception:
        return None
    return None


def spec_trampoline(chk, K, probe=None):
    ex = chk.executor(True)
    nat = chk.ws.runner("dev")
    unit = "Interpreter::apply_procedure trampoline step (callees stubbed)"
    chk.region_ns = {}
    replay = (lambda vals: probe(nat)) if probe else (lambda vals: tail_probe(nat))

    def on_path(rv, events, ar, info):
        chk.path(unit)
        rec = [e for e in events if e["kind"] == "recursive_call"]
        post = [z3.BoolVal(not rec)]
        # each iteration: enter (procedure_i, args_i); if it returns a TailCall, exactly one eval_procedure_call on ITS operator/operands/environment
        seq = [e for e in events if e["kind"] in ("enter_scheme", "enter_builtin", "eval_procedure_call")]
        ok = True
        it = 0
        i = 0
        while i < len(seq):
            e = seq[i]
            if e["kind"] == "eval_procedure_call":
                ok = False
                break
            ok = ok and e["proc"] == "proc%d" % it and e["args"] is info["args"]["args%d" % it]
            i += 1
            if i < len(seq):
                c = seq[i]
                if c["kind"] != "eval_procedure_call" or e["kind"] != "enter_scheme":
                    ok = False
                    break
                # its arguments are the components of the TailCall returned by THIS iteration's apply_scheme_procedure
                pref = "ter%d.TailCall.0" % it
                names = [c["expr"] or "", c["operands"] or "", c["env"] or ""]
                ok = ok and all(n.startswith(pref) for n in names)
                i += 1
                it += 1
        post.append(z3.BoolVal(ok))
        # the loop's result is what the last iteration returned
        if isinstance(rv, Adt) and rv.variant == "Ok":
            v = rv.fields[0]
            enters = [e for e in events if e["kind"] == "enter_scheme"]
            if isinstance(v, Lazy):
                post.append(z3.BoolVal(bool(enters) and v.name == "ter%d.Value.0" % (len(enters) - 1)))
            else:
                post.append(z3.BoolVal(False))
        chk.oblige(ex, unit, "one iteration either finishes or re-binds procedure/arguments from the returned tail call; it never calls the evaluator recursively; the result is the last iteration's value",
                   z3.And(*post), {}, replay)

    ex.panic_hook = lambda info: chk.oblige(ex, unit, "no-panic", z3.BoolVal(False), {}, replay)
    skel.run_apply_procedure(chk, ex, K, on_path)


def run(chk):
    thorough = chk.tier == "thorough"
    depth = 4 if thorough else 3
    K = 4 if thorough else 3
    chk.bounds = {"conditionals nested on the tail spine": depth, "trampoline iterations": K, "procedure bodies": "1..3 expressions, 0..2 internal definitions"}
    chk.assumptions += [
        "mechanism level: the solver decides that the trampoline cannot become recursive and that tail positions return calls unevaluated; machine stack depth and live heap are not solver variables",
        "derived forms (begin/let/cond/...) keeping tail position needs the expander on grammar.sld: outside; heap retention outside (drops not modelled)",
        "sub-evaluations are nondeterministic stubs; structural counterexamples are confirmed by native tail-call probes (loops of 200000 iterations) before they are reported",
    ]
    chk.run_probes("tail calls", tail_probe, chk.ws.runner("dev"), len(TAIL_PROBES))
    chk.run_probes("procedure shapes", skel.shape_probe_selfcheck, chk.ws.runner("dev"), 6 * len(skel.SHAPES))
    chk.step("eval_tail_expression", spec_eval_tail, chk, depth)
    chk.step("apply_scheme_procedure tail position", spec_apply_scheme, chk, "", ("order",), tail_probe)
    chk.step("trampoline", spec_trampoline, chk, K)
    chk.step("apply in tail position", spec_native_apply, chk, True)
