"""C09 - exact arithmetic is exact, inexactness is contagious.   (DESIGN.md section 4, C09)"""
import random
from fractions import Fraction

import numpy as np
import z3

from ..core import Adt, Lazy, Ref, Cell, TRAIL, undo, Unsupported
from ..mir import ENUMS
from . import numlib as nl
from .numlib import NumIn, ValIn, B15

TRAITS = {"add": "Add", "sub": "Sub", "mul": "Mul", "div": "Div"}


# ------------------------------------------------------------------------------------------------ python reference semantics
def py_binop(op, x, y):
    """reference result: ('exact', Fraction) | ('real', float32) | ('err', 'DivisionByZero')"""
    if x[0] != "F" and y[0] != "F":
        a, b = nl.py_value(x), nl.py_value(y)
        if op == "add":
            return ("exact", a + b)
        if op == "sub":
            return ("exact", a - b)
        if op == "mul":
            return ("exact", a * b)
        if op == "div":
            if b == 0:
                return ("err", "DivisionByZero")
            return ("exact", a / b)
    with np.errstate(all="ignore"):
        a, b = nl.py_to_f32(x), nl.py_to_f32(y)
        r = {"add": lambda: a + b, "sub": lambda: a - b, "mul": lambda: a * b, "div": lambda: a / b}[op]()
        return ("real", np.float32(r))


def floor_frac(fr):
    return fr.numerator // fr.denominator


def ceil_frac(fr):
    return -((-fr.numerator) // fr.denominator)


def py_unop(op, x):
    if x[0] != "F":
        a = nl.py_value(x)
        if op == "abs":
            return ("exact", abs(a))
        if op == "floor":
            return ("exact", Fraction(floor_frac(a)))
        if op == "ceiling":
            return ("exact", Fraction(ceil_frac(a)))
    with np.errstate(all="ignore"):
        a = nl.py_to_f32(x)
        r = {"abs": np.abs, "floor": np.floor, "ceiling": np.ceil}[op](a)
        return ("real", np.float32(r))


def native_matches(out, expected):
    """does the native answer agree with the reference? returns (agrees, why)"""
    t = out.split(" ;;")[0].split()
    if not t:
        return False, "no answer"
    if t[0] in ("PANIC", "ABORT"):
        return False, "native panicked"
    if expected[0] == "err":
        return (t[0] == "ERR" and t[1] == expected[1]), "native: " + " ".join(t[:3])
    if t[0] != "OK":
        return False, "native: " + " ".join(t[:3])
    num = nl.parse_native_number(t[1:])
    if num is None:
        return False, "native: " + " ".join(t[:4])
    if expected[0] == "exact":
        if num[0] == "F":
            return False, "native returned inexact %s for exact operands (expected %s)" % (t[1:], expected[1])
        if num[0] == "Q" and num[2] == 0:
            return False, "native returned a ratio with zero denominator"
        return (nl.py_value(num) == expected[1]), "native %s, exact value %s" % (nl.tok_number(num), expected[1])
    if num[0] != "F":
        return False, "native returned exact %s for an inexact operand" % nl.tok_number(num)
    got = nl.f32_of_bits(num[1])
    exp = expected[1]
    same = (np.isnan(got) and np.isnan(exp)) or nl.bits_of_f32(got) == nl.bits_of_f32(exp)
    return same, "native %08x, IEEE binary32 result %08x" % (num[1], nl.bits_of_f32(exp))


# ------------------------------------------------------------------------------------------------ helpers
def exact_value_post(rn, rd, en, ed):
    return z3.And(rd != 0, rn * ed == en * rd)


def run_concrete(ex, f, args, wrap_ok=False):
    outs = []
    old = ex.panic_hook
    ex.panic_hook = lambda info: outs.append("PANIC")
    ex.ctx.push()
    mark = len(TRAIL)
    try:
        for rv in ex.run(f, args):
            c = nl.canon_concrete(ex, rv)
            outs.append(("OK " + c) if wrap_ok else c)
    finally:
        ex.ctx.pop()
        undo(mark)
        ex.panic_hook = old
        del ex.panics[:]
    if len(outs) != 1:
        return "AMBIGUOUS %s" % outs
    return outs[0]


def spec_binop(chk, op, overflow_checks=True, profile="dev"):
    ex = chk.executor(overflow_checks)
    nat = chk.ws.runner(profile)
    x = NumIn(ex, "x")
    y = NumIn(ex, "y")
    ex.ctx.add(x.valid(), y.valid())
    f = ex.resolve("<values::Number<R> as %s>::%s" % (TRAITS[op], op))
    unit = "Number::%s" % op + ("" if overflow_checks else " [release MIR]")
    inputs = dict(x.inputs("x"))
    inputs.update(y.inputs("y"))
    chk.region_ns = dict(x.region_ns("x"))
    chk.region_ns.update(y.region_ns("y"))
    both_exact = z3.And(x.exact, y.exact)
    bound = z3.And(x.within(B15), y.within(B15))
    chk.region_ns["operands_below_2_15"] = bound

    def concrete(vals):
        return nl.num_from_model(vals, "x"), nl.num_from_model(vals, "y")

    def replay_value(vals):
        cx, cy = concrete(vals)
        out = nat.cmd("num2 %s %s %s" % (op, nl.tok_number(cx), nl.tok_number(cy)))
        ok, why = native_matches(out, py_binop(op, cx, cy))
        return (not ok and "panicked" not in why), "(%s %s %s) [%s build]: %s" % (op, nl.tok_number(cx), nl.tok_number(cy), profile, why)

    def replay_panic(vals):
        cx, cy = concrete(vals)
        out = nat.cmd("num2 %s %s %s" % (op, nl.tok_number(cx), nl.tok_number(cy)))
        return out.startswith(("PANIC", "ABORT")), "(%s %s %s) [%s build]: %s" % (op, nl.tok_number(cx), nl.tok_number(cy), profile, out[:60])

    def on_panic(info):
        chk.unit(unit)["panic_outcomes"] += 1
        chk.oblige(ex, unit, "no-panic-below-2^15", z3.BoolVal(False), inputs, replay_panic, pre=z3.And(both_exact, bound))

    ex.panic_hook = on_panic
    fx, fy = x.as_fp(), y.as_fp()
    fpop = {"add": z3.fpAdd, "sub": z3.fpSub, "mul": z3.fpMul, "div": z3.fpDiv}[op]
    for rv in ex.run(f, [x.obj, y.obj]):
        chk.path(unit)
        if op == "div":
            if rv.variant == "Err":
                kind = nl.err_kind(ex, rv.fields[0])
                chk.oblige(ex, unit, "error-iff-exact-zero-divisor", z3.And(z3.BoolVal(kind == "DivisionByZero"), both_exact, y.n == 0), inputs, replay_value)
                continue
            chk.oblige(ex, unit, "error-iff-exact-zero-divisor", y.n != 0, inputs, replay_value, pre=both_exact)
            res = rv.fields[0]
        else:
            res = rv
        kind, rn, rd, rr = nl.result_number(ex, res)
        en, ed = {"add": (x.n * y.d + y.n * x.d, x.d * y.d), "sub": (x.n * y.d - y.n * x.d, x.d * y.d), "mul": (x.n * y.n, x.d * y.d),
                  "div": (x.n * y.d, x.d * y.n)}[op]
        if kind == "Real":
            chk.oblige(ex, unit, "exact-operands-give-exact-result", z3.BoolVal(False), inputs, replay_value, pre=both_exact)
            chk.oblige(ex, unit, "inexact-contagion-ieee-binary32", nl.fp_same(rr, fpop(z3.RNE(), fx, fy)), inputs, replay_value, pre=z3.Not(both_exact))
        else:
            chk.oblige(ex, unit, "exact-result", exact_value_post(rn, rd, en, ed), inputs, replay_value, pre=both_exact)
            chk.oblige(ex, unit, "inexact-operand-gives-inexact-result", z3.BoolVal(False), inputs, replay_value, pre=z3.Not(both_exact))
    return ex, f


def spec_unop(chk, op, overflow_checks=True, profile="dev"):
    ex = chk.executor(overflow_checks)
    nat = chk.ws.runner(profile)
    x = NumIn(ex, "x")
    ex.ctx.add(x.valid())
    f = ex.resolve("values::Number::<R>::%s" % op)
    unit = "Number::%s" % op + ("" if overflow_checks else " [release MIR]")
    inputs = dict(x.inputs("x"))
    chk.region_ns = dict(x.region_ns("x"))
    chk.region_ns["operands_below_2_15"] = x.within(B15)

    def replay_value(vals):
        cx = nl.num_from_model(vals, "x")
        out = nat.cmd("num1 %s %s" % (op, nl.tok_number(cx)))
        ok, why = native_matches(out, py_unop(op, cx))
        return (not ok and "panicked" not in why), "(%s %s) [%s build]: %s" % (op, nl.tok_number(cx), profile, why)

    def replay_panic(vals):
        cx = nl.num_from_model(vals, "x")
        out = nat.cmd("num1 %s %s" % (op, nl.tok_number(cx)))
        return out.startswith(("PANIC", "ABORT")), "(%s %s) [%s build]: %s" % (op, nl.tok_number(cx), profile, out[:60])

    def on_panic(info):
        chk.unit(unit)["panic_outcomes"] += 1
        chk.oblige(ex, unit, "no-panic-below-2^15", z3.BoolVal(False), inputs, replay_panic, pre=z3.And(x.exact, x.within(B15)))

    ex.panic_hook = on_panic
    fx = x.as_fp()
    for rv in ex.run(f, [x.obj]):
        chk.path(unit)
        kind, rn, rd, rr = nl.result_number(ex, rv)
        if kind == "Real":
            chk.oblige(ex, unit, "exact-operands-give-exact-result", z3.BoolVal(False), inputs, replay_value, pre=x.exact)
            e = {"abs": z3.fpAbs(fx), "floor": z3.fpRoundToIntegral(z3.RTN(), fx), "ceiling": z3.fpRoundToIntegral(z3.RTP(), fx)}[op]
            chk.oblige(ex, unit, "inexact-contagion-ieee-binary32", nl.fp_same(rr, e), inputs, replay_value, pre=x.is_real)
            continue
        chk.oblige(ex, unit, "inexact-operand-gives-inexact-result", z3.BoolVal(False), inputs, replay_value, pre=x.is_real)
        if op == "abs":
            absn = z3.If(x.n < 0, -x.n, x.n)
            absd = z3.If(x.d < 0, -x.d, x.d)
            post = exact_value_post(rn, rd, absn, absd)
        else:
            # q = floor(n/d) / ceiling(n/d) as an exact integer: sign-normalise the fraction, then bracket it
            N = z3.If(x.d > 0, x.n, -x.n)
            D = z3.If(x.d > 0, x.d, -x.d)
            q = rn
            if op == "floor":
                post = z3.And(z3.BoolVal(kind == "Integer"), q * D <= N, N < (q + 1) * D)
            else:
                post = z3.And(z3.BoolVal(kind == "Integer"), (q - 1) * D < N, N <= q * D)
        chk.oblige(ex, unit, "exact-result", post, inputs, replay_value, pre=x.exact)
    return ex, f


def py_floor_q(x, y):
    if x[0] != "F" and y[0] != "F":
        a, b = nl.py_value(x), nl.py_value(y)
        if b == 0:
            return ("err", "DivisionByZero")
        return ("exact", Fraction(floor_frac(a / b)))
    with np.errstate(all="ignore"):
        a, b = nl.py_to_f32(x), nl.py_to_f32(y)
        return ("real", np.float32(np.floor(np.float32(a / b))))


def py_floor_r(x, y):
    if x[0] != "F" and y[0] != "F":
        a, b = nl.py_value(x), nl.py_value(y)
        if b == 0:
            return ("err", "DivisionByZero")
        return ("exact", a - b * floor_frac(a / b))
    return None


def spec_floor_qr(chk, which, overflow_checks=True, profile="dev"):
    ex = chk.executor(overflow_checks)
    nat = chk.ws.runner(profile)
    x = NumIn(ex, "x")
    y = NumIn(ex, "y")
    ex.ctx.add(x.valid(), y.valid())
    f = ex.resolve("values::Number::<R>::%s" % which)
    unit = "Number::%s" % which + ("" if overflow_checks else " [release MIR]")
    inputs = dict(x.inputs("x"))
    inputs.update(y.inputs("y"))
    chk.region_ns = dict(x.region_ns("x"))
    chk.region_ns.update(y.region_ns("y"))
    both_exact = z3.And(x.exact, y.exact)
    # the exact quotient x/y = QN/QD, sign-normalised, and its floor Q (unique integer with Q*QD <= QN < (Q+1)*QD)
    qn0, qd0 = x.n * y.d, x.d * y.n
    QN = z3.If(qd0 > 0, qn0, -qn0)
    QD = z3.If(qd0 > 0, qd0, -qd0)
    ref = py_floor_q if which == "floor_quotient" else py_floor_r

    def replay_value(vals):
        cx, cy = nl.num_from_model(vals, "x"), nl.num_from_model(vals, "y")
        exp = ref(cx, cy)
        out = nat.cmd("num2 %s %s %s" % (which, nl.tok_number(cx), nl.tok_number(cy)))
        if exp is None:
            return False, "no reference for inexact floor-remainder"
        ok, why = native_matches(out, exp)
        return (not ok and "panicked" not in why), "(%s %s %s) [%s build]: %s" % (which, nl.tok_number(cx), nl.tok_number(cy), profile, why)

    def replay_panic(vals):
        cx, cy = nl.num_from_model(vals, "x"), nl.num_from_model(vals, "y")
        out = nat.cmd("num2 %s %s %s" % (which, nl.tok_number(cx), nl.tok_number(cy)))
        return out.startswith(("PANIC", "ABORT")), "(%s %s %s) [%s build]: %s" % (which, nl.tok_number(cx), nl.tok_number(cy), profile, out[:60])

    # "below 2^15" for a two-step operation: the operands and the intermediate quotient's components
    small = z3.And(x.within(2**7), y.within(2**7))

    def on_panic(info):
        chk.unit(unit)["panic_outcomes"] += 1
        chk.oblige(ex, unit, "no-panic-for-small-operands(<2^7: intermediate ratio stays below 2^15)", z3.BoolVal(False), inputs, replay_panic, pre=z3.And(both_exact, small))

    ex.panic_hook = on_panic
    for rv in ex.run(f, [x.obj, y.obj]):
        chk.path(unit)
        if rv.variant == "Err":
            kind = nl.err_kind(ex, rv.fields[0])
            chk.oblige(ex, unit, "error-iff-exact-zero-divisor", z3.And(z3.BoolVal(kind == "DivisionByZero"), both_exact, y.n == 0), inputs, replay_value)
            continue
        chk.oblige(ex, unit, "error-iff-exact-zero-divisor", y.n != 0, inputs, replay_value, pre=both_exact)
        kind, rn, rd, rr = nl.result_number(ex, rv.fields[0])
        if kind == "Real":
            chk.oblige(ex, unit, "exact-operands-give-exact-result", z3.BoolVal(False), inputs, replay_value, pre=both_exact)
            if which == "floor_quotient":
                e = z3.fpRoundToIntegral(z3.RTN(), z3.fpDiv(z3.RNE(), x.as_fp(), y.as_fp()))
                chk.oblige(ex, unit, "inexact-contagion-ieee-binary32", nl.fp_same(rr, e), inputs, replay_value, pre=z3.Not(both_exact))
            continue
        chk.oblige(ex, unit, "inexact-operand-gives-inexact-result", z3.BoolVal(False), inputs, replay_value, pre=z3.Not(both_exact))
        if which == "floor_quotient":
            q = rn
            post = z3.And(z3.BoolVal(kind == "Integer"), q * QD <= QN, QN < (q + 1) * QD)
        else:
            # n = d*q + r  with q = floor(n/d):   r = x - y*q   <=>   rn/rd = xn/xd - (yn/yd)*q
            q = z3.Int("q_floor")
            isq = z3.And(q * QD <= QN, QN < (q + 1) * QD)
            post = z3.Implies(isq, exact_value_post(rn, rd, x.n * y.d - y.n * q * x.d, x.d * y.d))
        chk.oblige(ex, unit, "exact-result(n = d*q + r, q = floor(n/d))", post, inputs, replay_value, pre=z3.And(both_exact, y.n != 0))
    return ex, f


# ------------------------------------------------------------------------------------------------ n-ary builtins
def py_fold(name, nums):
    if any(n[0] == "F" for n in nums):
        return ("anyreal", None)
    vals = [nl.py_value(n) for n in nums]
    try:
        if name == "+":
            return ("exact", sum(vals, Fraction(0)))
        if name == "*":
            r = Fraction(1)
            for v in vals:
                r *= v
            return ("exact", r)
        if name == "-":
            if len(vals) == 1:
                return ("exact", -vals[0])
            r = vals[0]
            for v in vals[1:]:
                r -= v
            return ("exact", r)
        if name == "/":
            if len(vals) == 1:
                return ("exact", 1 / vals[0])
            r = vals[0]
            for v in vals[1:]:
                r = r / v
            return ("exact", r)
    except ZeroDivisionError:
        return ("err", "DivisionByZero")


def spec_fold(chk, name, fnname, N):
    ex = chk.executor(True)
    nat = chk.ws.runner("dev")
    vals = [ValIn(ex, "v%d" % k) for k in range(N)]
    ln = z3.Int("argc")
    minlen = 1 if name in ("-", "/") else 0
    ex.ctx.add(ln >= minlen, ln <= N)
    for k, v in enumerate(vals):
        ex.ctx.add(v.is_number, v.num.valid())
    seq = nl.seq_of(ex, "args", [v.obj for v in vals], ln)
    f = ex.resolve(fnname)
    unit = "builtin (%s x ...)" % name
    inputs = {"argc": ln}
    chk.region_ns = {}
    for k, v in enumerate(vals):
        inputs.update(v.num.inputs("v%d" % k))
        chk.region_ns.update(v.num.region_ns("v%d" % k))
    all_exact = z3.And(*[z3.Or(ln <= k, v.num.exact) for k, v in enumerate(vals)])

    def concrete(vv):
        return [nl.num_from_model(vv, "v%d" % k) for k in range(vv["argc"])]

    def replay_value(vv):
        nums = concrete(vv)
        exp = py_fold(name, nums)
        out = nat.cmd("builtin %s %d %s" % (name.encode().hex(), len(nums), " ".join(nl.tok_number(n) for n in nums)))
        desc = "(%s %s): " % (name, " ".join(nl.tok_number(n) for n in nums))
        if exp[0] == "anyreal":
            t = out.split()
            return (t[0] == "OK" and t[1] != "F"), desc + out[:60]
        ok, why = native_matches(out, exp)
        return (not ok and "panicked" not in why), desc + why

    ex.panic_hook = lambda info: chk.unit(unit).__setitem__("panic_outcomes", chk.unit(unit)["panic_outcomes"] + 1)
    # reference fold over Q
    one = z3.IntVal(1)
    zero = z3.IntVal(0)

    def fold_spec():
        n = [v.num.n for v in vals]
        d = [v.num.d for v in vals]
        if name == "+":
            en, ed = zero, one
            for k in range(N):
                en, ed = z3.If(ln > k, en * d[k] + n[k] * ed, en), z3.If(ln > k, ed * d[k], ed)
            return en, ed, z3.BoolVal(False)
        if name == "*":
            en, ed = one, one
            for k in range(N):
                en, ed = z3.If(ln > k, en * n[k], en), z3.If(ln > k, ed * d[k], ed)
            return en, ed, z3.BoolVal(False)
        if name == "-":
            en, ed = z3.If(ln == 1, -n[0], n[0]), d[0]
            for k in range(1, N):
                en, ed = z3.If(ln > k, en * d[k] - n[k] * ed, en), z3.If(ln > k, ed * d[k], ed)
            return en, ed, z3.BoolVal(False)
        if name == "/":
            en, ed = z3.If(ln == 1, d[0], n[0]), z3.If(ln == 1, n[0], d[0])
            zerodiv = z3.And(ln == 1, n[0] == 0)
            for k in range(1, N):
                en, ed = z3.If(ln > k, en * d[k], en), z3.If(ln > k, ed * n[k], ed)
                zerodiv = z3.Or(zerodiv, z3.And(ln > k, n[k] == 0))
            return en, ed, zerodiv

    en, ed, zerodiv = fold_spec()
    for rv in ex.run(f, [seq]):
        chk.path(unit)
        if rv.variant == "Err":
            kind = nl.err_kind(ex, rv.fields[0])
            chk.oblige(ex, unit, "error-iff-exact-zero-divisor", z3.And(z3.BoolVal(kind == "DivisionByZero"), zerodiv), inputs, replay_value, pre=all_exact)
            continue
        val = rv.fields[0]
        if not (isinstance(val, Adt) and val.variant == "Number"):
            raise Unsupported("fold result is not Value::Number: %r" % (val,))
        kind, rn, rd, rr = nl.result_number(ex, val.fields[0])
        if kind == "Real":
            chk.oblige(ex, unit, "exact-operands-give-exact-result", z3.BoolVal(False), inputs, replay_value, pre=all_exact)
        else:
            chk.oblige(ex, unit, "exact-fold-result", z3.And(z3.Not(zerodiv), exact_value_post(rn, rd, en, ed)), inputs, replay_value, pre=all_exact)
            chk.oblige(ex, unit, "inexact-operand-gives-inexact-result", z3.BoolVal(False), inputs, replay_value, pre=z3.Not(all_exact))
    return ex, f


def py_fold_mixed(name, nums):
    """left fold of the binary operation (the identity element first for + and *, 0 - x and 1 / x for one operand):
    ('exact', Fraction) | ('real', float32) | ('err', 'DivisionByZero')"""
    op = {"+": "add", "-": "sub", "*": "mul", "/": "div"}[name]

    def as_num(acc):
        if acc[0] == "exact":
            fr = acc[1]
            return ("I", fr.numerator) if fr.denominator == 1 else ("Q", fr.numerator, fr.denominator)
        return ("F", nl.bits_of_f32(acc[1]))

    if name in ("+", "*") or len(nums) == 1:
        acc = ("exact", Fraction(0 if name in ("+", "-") else 1))
        rest = nums
    else:
        acc = ("exact", nl.py_value(nums[0])) if nums[0][0] != "F" else ("real", nl.f32_of_bits(nums[0][1]))
        rest = nums[1:]
    for v in rest:
        acc = py_binop(op, as_num(acc), v)
        if acc[0] == "err":
            return acc
    return acc


B10 = 2**10


def spec_fold_mixed(chk, name, fnname):
    """n-ary fold with exact and inexact operands mixed (<= 3 operands, each an integer below 2^10 in magnitude or any
    binary32): the result is the left fold of the binary operation - an error exactly when an exact zero divides an
    accumulator that is still exact, otherwise the binary32 value of the IEEE operations applied left to right."""
    from ..core import i32_to_f32 as conv
    N = 3
    ex = chk.executor(True)
    nat = chk.ws.runner("dev")
    vals = [ValIn(ex, "v%d" % k, allow_num=("Integer", "Real")) for k in range(N)]
    ln = z3.Int("argc")
    minlen = 1 if name in ("-", "/") else 0
    ex.ctx.add(ln >= minlen, ln <= N)
    for k, v in enumerate(vals):
        ex.ctx.add(v.is_number, v.num.valid(), v.num.within(B10))
    seq = nl.seq_of(ex, "args", [v.obj for v in vals], ln)
    f = ex.resolve(fnname)
    unit = "builtin (%s x ...) with inexact operands" % name
    inputs = {"argc": ln}
    chk.region_ns = {}
    for k, v in enumerate(vals):
        inputs.update(v.num.inputs("v%d" % k))
    some_real = z3.Or(*[z3.And(ln > k, v.num.is_real) for k, v in enumerate(vals)])
    fpop = {"+": z3.fpAdd, "-": z3.fpSub, "*": z3.fpMul, "/": z3.fpDiv}[name]
    rne = z3.RNE()

    def reference(n_args, real_flags):
        """left fold for a concrete operand count and concrete exactness of every operand:
        returns (exact?, n, d, binary32 term, error condition)"""
        hard = []

        def conv_acc(acc):
            if acc[0]:
                if acc[2] is not one:
                    # an exact quotient of two integers meets an inexact operand: its conversion fl(a)/fl(b) is compared
                    # by Number::div's own obligations; chained with a second division it is beyond z3's FP engine here
                    hard.append(1)
                    return z3.fpDiv(rne, conv(acc[1]), conv(acc[2]))
                return conv(acc[1])
            return acc[3]

        def step(acc, k):
            v = vals[k].num
            is_real = real_flags[k]
            err = acc[4]
            if acc[0] and not is_real:
                n, d = acc[1], acc[2]
                if name == "+":
                    n2, d2 = (n * one + v.i * d, d) if d is not one else (n + v.i, one)
                elif name == "-":
                    n2, d2 = (n - v.i * d, d) if d is not one else (n - v.i, one)
                elif name == "*":
                    n2, d2 = n * v.i, d
                else:
                    n2, d2 = n, (d * v.i if d is not one else v.i)
                    err = z3.Or(err, v.i == 0)
                return (True, n2, d2, None, err)
            return (False, None, None, fpop(rne, conv_acc(acc), v.r if is_real else conv(v.i)), err)

        ident = (True, zero if name in ("+", "-") else one, one, None, z3.BoolVal(False))
        if name in ("+", "*") or n_args == 1:
            acc = ident
            ks = range(n_args)
        else:
            v0 = vals[0].num
            acc = (False, None, None, v0.r, z3.BoolVal(False)) if real_flags[0] else (True, v0.i, one, None, z3.BoolVal(False))
            ks = range(1, n_args)
        for k in ks:
            acc = step(acc, k)
        return acc + (bool(hard),)

    zero, one = z3.IntVal(0), z3.IntVal(1)

    def shapes():
        """the operand count and the exactness of every operand are decided on every path of the fold: enumerate the
        (normally single) feasible combination"""
        for c in ex.branches([ln == c for c in range(0, N + 1)]):
            def rec(k, flags):
                if k == c:
                    yield c, list(flags)
                    return
                for b in ex.branches([vals[k].num.is_int, vals[k].num.is_real]):
                    yield from rec(k + 1, flags + [b == 1])
            yield from rec(0, [])

    def replay_value(vv):
        nums = [nl.num_from_model(vv, "v%d" % k) for k in range(vv["argc"])]
        exp = py_fold_mixed(name, nums)
        out = nat.cmd("builtin %s %d %s" % (name.encode().hex(), len(nums), " ".join(nl.tok_number(n) for n in nums)))
        desc = "(%s %s): " % (name, " ".join(nl.tok_number(n) for n in nums))
        ok, why = native_matches(out, exp)
        if not ok and exp[0] == "real" and exp[1] == 0 and (name == "+" or (name == "-" and len(nums) == 1)):
            # the sign of a zero sum depends on whether the fold starts from the identity element: not part of the property
            t = out.split()
            if t[:2] == ["OK", "F"] and int(t[2], 16) & 0x7fffffff == 0:
                ok = True
        return (not ok and "panicked" not in why), desc + why

    ex.panic_hook = lambda info: chk.unit(unit).__setitem__("panic_outcomes", chk.unit(unit)["panic_outcomes"] + 1)
    for rv in ex.run(f, [seq]):
        chk.path(unit)
        for n_args, flags in shapes():
            if not any(flags):
                continue        # all operands exact: spec_fold
            e_fin, n_fin, d_fin, f_fin, err_fin, hard = reference(n_args, flags)
            if rv.variant == "Err":
                kind = nl.err_kind(ex, rv.fields[0])
                chk.oblige(ex, unit, "error-iff-exact-zero-divides-exact-accumulator", z3.And(z3.BoolVal(kind == "DivisionByZero"), err_fin), inputs, replay_value)
                continue
            val = rv.fields[0]
            if not (isinstance(val, Adt) and val.variant == "Number"):
                raise Unsupported("fold result is not Value::Number: %r" % (val,))
            kind, rn, rd, rr = nl.result_number(ex, val.fields[0])
            if kind == "Real" and not e_fin:
                same = nl.fp_same(rr, f_fin)
                if name == "+" or (name == "-" and n_args == 1):
                    same = z3.Or(same, z3.And(z3.fpIsZero(rr), z3.fpIsZero(f_fin)))
                if hard:
                    same = z3.BoolVal(True)
                chk.oblige(ex, unit, "left-fold-ieee-binary32", z3.And(z3.Not(err_fin), same), inputs, replay_value)
            else:
                chk.oblige(ex, unit, "inexact-operand-gives-inexact-result", z3.BoolVal(False), inputs, replay_value)
    return ex, f


# ------------------------------------------------------------------------------------------------ literals
def spec_literal(chk):
    ex = chk.executor(True)
    nat = chk.ws.runner("dev")
    p = Lazy("parser::datum::Primitive", "p")
    tag = ex.lazy_tag(p)
    PI, PQ = ENUMS["Primitive"].index("Integer"), ENUMS["Primitive"].index("Rational")
    ex.ctx.add(z3.Or(tag == PI, tag == PQ))
    pi = ex.project(("DC", p, "Integer"), ("f", 0, "i32"))
    pa = ex.project(("DC", p, "Rational"), ("f", 0, "i32"))
    pb = ex.project(("DC", p, "Rational"), ("f", 1, "u32"))
    f = ex.fn_by_suffix("eval_primitive")
    unit = "Interpreter::eval_primitive (numeric literal conversion)"
    inputs = {"pt": tag, "pi": pi, "pa": pa, "pb": pb}
    chk.region_ns = {"p_is_ratio": tag == PQ, "p_is_integer": tag == PI}

    def replay_value(vv):
        if vv["pt"] == PI:
            out = nat.cmd("literal I %d" % vv["pi"])
            exp = ("exact", Fraction(vv["pi"]))
            desc = "literal %d: " % vv["pi"]
        else:
            out = nat.cmd("literal Q %d %d" % (vv["pa"], vv["pb"]))
            exp = ("exact", Fraction(vv["pa"], vv["pb"]))
            desc = "literal %d/%d: " % (vv["pa"], vv["pb"])
        ok, why = native_matches(out, exp)
        return (not ok and "panicked" not in why), desc + why

    ex.panic_hook = lambda info: chk.oblige(ex, unit, "no-panic", z3.BoolVal(False), inputs, lambda vv: (nat.cmd("literal Q %d %d" % (vv["pa"], vv["pb"])).startswith("PANIC"), "panic"))
    for rv in ex.run(f, [Ref(Cell(p))]):
        chk.path(unit)
        if rv.variant != "Ok":
            chk.oblige(ex, unit, "literal-converts", z3.BoolVal(False), inputs, replay_value)
            continue
        val = rv.fields[0]
        kind, rn, rd, rr = nl.result_number(ex, val.fields[0])
        en = z3.If(tag == PI, pi, pa)
        ed = z3.If(tag == PI, z3.IntVal(1), pb)
        chk.oblige(ex, unit, "literal-denotes-its-exact-value", z3.And(z3.BoolVal(kind != "Real"), exact_value_post(rn, rd, en, ed)), inputs, replay_value,
                   pre=z3.Implies(tag == PQ, pb != 0))
    return ex, f


# ------------------------------------------------------------------------------------------------ encoder validation
def validate(chk, rng, n_random):
    nat = chk.ws.runner("dev")
    ex = chk.executor(True)
    ex.panic_hook = None
    grid = nl.grid_numbers(rng, n_random)
    pairs = []
    # the operand tuples of the repository's own unit tests (values.rs number_floor .. number_floor_remainder, base.rs builtin_*)
    repo = [(("I", 5), ("I", 2)), (("I", -5), ("I", 2)), (("I", 5), ("I", -2)), (("I", -5), ("I", -2)), (("Q", 25, 2), ("I", 3)), (("Q", -25, 2), ("I", 3)),
            (("Q", 33, 7), ("Q", 5, 2)), (("F", 0x40a00000), ("F", 0x40000000)), (("I", -5), ("F", 0x40000000)), (("F", 0x40a00000), ("I", -2)),
            (("Q", -15, 2), ("F", 0xc0400000)), (("I", 2), ("I", 8)), (("I", 2), ("I", 0)), (("I", 8), ("I", 3)), (("I", 2), ("I", 3))]
    pairs += repo
    for _ in range(max(40, n_random * 3)):
        pairs.append((rng.choice(grid), rng.choice(grid)))
    for op in ("add", "sub", "mul", "div"):
        f = ex.resolve("<values::Number<R> as %s>::%s" % (TRAITS[op], op))
        for cx, cy in pairs:
            if op == "div" and (cx[0] == "F" or cy[0] == "F") and False:
                continue
            sym = run_concrete(ex, f, [nl.conc_number(*cx), nl.conc_number(*cy)], wrap_ok=(op != "div"))
            out = nl.norm_native(nat.cmd("num2 %s %s %s" % (op, nl.tok_number(cx), nl.tok_number(cy))))
            chk.validate("Number::" + op, "%s %s" % (nl.tok_number(cx), nl.tok_number(cy)), sym, out)
    unary_repo = [("I", 5), ("Q", 28, 3), ("Q", -43, 7), ("Q", -15, 5), ("F", 0x40733333), ("F", 0xc0a9999a), ("Q", -49, 3), ("I", -2**31), ("Q", -1, 2), ("Q", 1, 2), ("Q", 1, -2)]
    for op in ("abs", "floor", "ceiling"):
        f = ex.resolve("values::Number::<R>::%s" % op)
        for cx in unary_repo + grid[:60]:
            sym = run_concrete(ex, f, [nl.conc_number(*cx)], wrap_ok=True)
            out = nl.norm_native(nat.cmd("num1 %s %s" % (op, nl.tok_number(cx))))
            chk.validate("Number::" + op, nl.tok_number(cx), sym, out)
    for op in ("floor_quotient", "floor_remainder"):
        f = ex.resolve("values::Number::<R>::%s" % op)
        for cx, cy in pairs[:60]:
            sym = run_concrete(ex, f, [nl.conc_number(*cx), nl.conc_number(*cy)])
            out = nl.norm_native(nat.cmd("num2 %s %s %s" % (op, nl.tok_number(cx), nl.tok_number(cy))))
            chk.validate("Number::" + op, "%s %s" % (nl.tok_number(cx), nl.tok_number(cy)), sym, out)
    # builtins on concrete argument vectors (includes the vectors of base.rs' builtin_add/sub/mul/div tests)
    vecs = [[], [("I", 2)], [("I", 2), ("I", 3)], [("I", 2), ("I", 3), ("I", 4)], [("I", 2), ("I", 8)], [("I", 2), ("I", 8), ("F", 0x3e000000)], [("I", 2), ("I", 0)]]
    for _ in range(20):
        vecs.append([rng.choice(grid) for _ in range(rng.randint(1, 3))])
    for name, fn in (("+", "base::add"), ("-", "base::sub"), ("*", "base::mul"), ("/", "base::div")):
        f = ex.resolve(fn)
        for vec in vecs:
            if name in ("-", "/") and not vec:
                continue
            items = [Adt("Value", "Number", [nl.conc_number(*c)]) for c in vec]
            seq = nl.seq_of(ex, "cargs", items, len(items))
            sym = run_concrete(ex, f, [seq])
            out = nl.norm_native(nat.cmd("builtin %s %d %s" % (name.encode().hex(), len(vec), " ".join(nl.tok_number(c) for c in vec))))
            chk.validate("builtin " + name, " ".join(nl.tok_number(c) for c in vec), sym, out)
    f = ex.fn_by_suffix("eval_primitive")
    for a, b in [(1, 3), (-1, 3), (4, 2), (7, 1), (1, 2**31), (1, 2**32 - 1), (-5, 10)]:
        sym = run_concrete(ex, f, [Ref(Cell(Adt("Primitive", "Rational", [z3.IntVal(a), z3.IntVal(b)])))])
        out = nl.norm_native(nat.cmd("literal Q %d %d" % (a, b)))
        chk.validate("eval_primitive", "%d/%d" % (a, b), sym, out)


def run(chk):
    rng = random.Random(chk.seed)
    thorough = chk.tier == "thorough"
    chk.bounds = {
        "exactness (returning paths)": "all i32 components (full width), dev-profile MIR (overflow checks on)",
        "no-panic clause": "all components below 2^15 in magnitude for + - * / abs floor ceiling; below 2^7 for floor-quotient/-remainder (two chained operations)",
        "n-ary folds": "0..%d arguments" % (4 if thorough else 3),
        "literal conversion": "all i32 numerators, all u32 denominators",
        "folds with inexact operands": "<= 3 operands, each an integer below 2^10 in magnitude or any binary32; value compared bit-for-bit with the left fold of the IEEE operations, except (/ i j x) with i/j a proper ratio, where only the error condition and the exactness class are compared",
        "release-profile MIR (wrapping arithmetic)": "thorough tier only" if not thorough else "encoded, operands below 2^15 (outside: known finding)",
    }
    chk.assumptions += [
        "ratio denominators are non-zero (either sign, unreduced forms allowed) - what the reader and the operations can produce",
        "R = f32, mapped to SMT-LIB Float32 with RNE; i32->f32 = to_fp RNE",
        "rustc's MIR (dev profile, overflow-checks=on) is what is encoded; LLVM/codegen trusted; see DESIGN.md section 8",
        "floor-remainder with an inexact operand is not compared against a reference (composition of three IEEE operations; only its exactness class is checked)",
    ]
    validate(chk, rng, 60 if thorough else 25)
    for op in ("add", "sub", "mul", "div"):
        spec_binop(chk, op)
    for op in ("abs", "floor", "ceiling"):
        spec_unop(chk, op)
    for which in ("floor_quotient", "floor_remainder"):
        spec_floor_qr(chk, which)
    N = 4 if thorough else 3
    for name, fn in (("+", "base::add"), ("-", "base::sub"), ("*", "base::mul"), ("/", "base::div")):
        spec_fold(chk, name, fn, N)
    for name, fn in (("+", "base::add"), ("-", "base::sub"), ("*", "base::mul"), ("/", "base::div")):
        chk.step("mixed fold " + name, spec_fold_mixed, chk, name, fn)
    spec_literal(chk)
    if thorough:
        for op in ("add", "sub", "mul", "div"):
            spec_binop(chk, op, overflow_checks=False, profile="release")
        for op in ("abs", "floor", "ceiling"):
            spec_unop(chk, op, overflow_checks=False, profile="release")
