"""C03 - bindings and vectors are shared by reference (kernel level).   (DESIGN.md section 4, C03)"""
import random

import z3

from ..core import Adt, Lazy, Ref, Cell, SeqObj, MapObj, StrVal, Tup, TRAIL, undo, Unsupported
from ..harness import hexs
from . import numlib as nl
from . import skel
from ..models import Some, NONE

NAMES = ["x", "y", "z"]


# ------------------------------------------------------------------------------------------------ scope chains
class Frames:
    """an arbitrary forest of frames: for every (frame, name) a symbolic presence bit and a symbolic value.
    parents[i] = index of the parent frame or -1.  Frames are LexicalScope structs behind Rc (identity cells)."""

    def __init__(self, ex, parents, names):
        self.parents = parents
        self.names = names
        self.present = {}
        self.value = {}
        self.maps = []
        self.rcs = []
        for i, p in enumerate(parents):
            m = MapObj("frame%d" % i)
            for n in names:
                pb = z3.Bool("present_%d_%s" % (i, n))
                v = z3.Int("val_%d_%s" % (i, n))
                self.present[(i, n)] = pb
                self.value[(i, n)] = v
                m.entries.append((StrVal(n), pb, Cell(v)))
            parent = NONE if p < 0 else Some(self.rcs[p])
            scope = Adt("LexicalScope", None, [parent, m])
            self.maps.append(m)
            self.rcs.append(Ref(Cell(scope, "frame%d" % i)))

    def chain(self, i):
        out = []
        while i >= 0:
            out.append(i)
            i = self.parents[i]
        return out

    def now(self, i, n):
        for (k, p, c) in self.maps[i].entries:
            if k.concrete() == n:
                return p, c.v
        return z3.BoolVal(False), None

    def extra_entries(self, i):
        return len(self.maps[i].entries) - len(self.names)

    def inputs(self):
        d = {}
        for (i, n), p in self.present.items():
            d["p%d%s" % (i, n)] = p
            d["v%d%s" % (i, n)] = self.value[(i, n)]
        return d

    def tokens(self, vals):
        defs = []
        for (i, n) in self.present:
            if vals["p%d%s" % (i, n)]:
                defs.append("%d %s %d" % (i, hexs(n), vals["v%d%s" % (i, n)]))
        return "%d %s %d %s" % (len(self.parents), " ".join(str(p) for p in self.parents), len(defs), " ".join(defs))

    def py_state(self, vals):
        return [{n: vals["v%d%s" % (i, n)] for n in self.names if vals["p%d%s" % (i, n)]} for i in range(len(self.parents))]


def parse_dump(out):
    res, dump = out.split(" ;; ", 1) if " ;; " in out else (out.split(" ;;")[0], "")
    frames = []
    for part in dump.split(" | "):
        d = {}
        for kv in part.strip().split(","):
            if "=" in kv:
                k, v = kv.split("=")
                d[k.strip()] = int(v)
        frames.append(d)
    return res.strip(), frames


def spec_scope(chk, parents, nnames):
    names = NAMES[:nnames]
    nat = chk.ws.runner("dev")
    shape = "frames %s" % (parents,)
    for op in ("set", "define", "get", "get_mut"):
        for target_frame in range(len(parents)):
            if op in ("get_mut",) and target_frame != len(parents) - 2:
                continue
            for name in names[:2] if op != "set" else names:
                ex = chk.executor(True)
                fr = Frames(ex, parents, names)
                f = ex.fn_by_suffix("19:24>::" + op) if False else [x for n_, l in ex.fns.items() for x in l if n_.endswith(">::" + op) and "environment::" in n_ and "{closure" not in n_][0]
                unit = "LexicalScope::%s" % op
                newv = z3.Int("newv")
                inputs = fr.inputs()
                inputs["newv"] = newv
                chk.region_ns = {}
                chain = fr.chain(target_frame)
                # the innermost frame on the chain that defines `name` in the PRE state
                def is_target(i, chain=chain, fr=fr, name=name):
                    if i not in chain:
                        return z3.BoolVal(False)
                    inner = [fr.present[(j, name)] for j in chain[:chain.index(i)]]
                    return z3.And(fr.present[(i, name)], *[z3.Not(x) for x in inner])
                bound_somewhere = z3.Or(*[fr.present[(i, name)] for i in chain])

                def replay(vals, op=op, target_frame=target_frame, name=name, fr=fr):
                    cmd = "scope %s %s %d %s" % (fr.tokens(vals), op, target_frame, hexs(name))
                    if op in ("set", "define"):
                        cmd += " %d" % vals["newv"]
                    out = nat.cmd(cmd)
                    if out.startswith(("PANIC", "ABORT")):
                        return True, "%s -> native panicked" % cmd
                    res, frames = parse_dump(out)
                    st = fr.py_state(vals)
                    ch = fr.chain(target_frame)
                    if op == "set":
                        tgt = next((i for i in ch if name in st[i]), None)
                        exp_res = "OK U" if tgt is not None else "ERR UnboundedSymbol"
                        if tgt is not None:
                            st[tgt][name] = vals["newv"]
                    elif op == "define":
                        st[target_frame][name] = vals["newv"]
                        exp_res = "OK U"
                    else:
                        tgt = next((i for i in ch if name in st[i]), None)
                        exp_res = "OK I %d" % st[tgt][name] if tgt is not None else "OK None"
                    got_res = " ".join(res.split()[:3]) if res.startswith("OK I") else " ".join(res.split()[:2])
                    bad = (got_res != exp_res) or frames != st
                    return bad, "%s(frame %d, %s) on %s: native result %r frames %s; store model: %r %s" % (op, target_frame, name, fr.py_state(vals), got_res, frames, exp_res, st)

                ex.panic_hook = lambda info, ex=ex, unit=unit, inputs=inputs, replay=replay: chk.oblige(ex, unit, "no-panic", z3.BoolVal(False), inputs, replay)
                this = fr.rcs[target_frame]
                if op == "set":
                    args = [this, StrVal(name), newv]
                elif op == "define":
                    args = [this, StrVal(name), newv]
                else:
                    args = [this, StrVal(name)]
                for rv in ex.run(f, args):
                    chk.path(unit)
                    post = []
                    # every (frame, name) cell: expected presence and value after the step
                    for i in range(len(parents)):
                        for n in names:
                            p_now, v_now = fr.now(i, n)
                            p0, v0 = fr.present[(i, n)], fr.value[(i, n)]
                            if op == "set" and n == name:
                                hit = is_target(i)
                                post.append(p_now == p0)
                                post.append(z3.Implies(p0, v_now == z3.If(hit, newv, v0)))
                            elif op == "define" and n == name and i == target_frame:
                                post.append(p_now)
                                post.append(v_now == newv)
                            else:
                                post.append(p_now == p0)
                                post.append(z3.Implies(p0, v_now == v0))
                        post.append(z3.BoolVal(fr.extra_entries(i) == 0))
                    if op == "set":
                        ok = isinstance(rv, Adt) and rv.variant == "Ok"
                        post.append(z3.BoolVal(ok) == bound_somewhere)
                        if not ok:
                            post.append(z3.BoolVal(nl.err_kind(ex, rv.fields[0]) == "UnboundedSymbol"))
                        label = "set! overwrites exactly the innermost defining cell on the chain; unbound => UnboundedSymbol, nothing changed"
                    elif op == "define":
                        label = "define touches only its own frame"
                    else:
                        if isinstance(rv, Adt) and rv.variant == "Some":
                            got = ex.load(rv.fields[0])
                            post.append(bound_somewhere)
                            exp = None
                            for i in reversed(chain):
                                exp = fr.value[(i, name)] if exp is None else z3.If(fr.present[(i, name)], fr.value[(i, name)], exp)
                            post.append(got == exp)
                            # and it is the cell itself (a reference into the defining frame), not a copy
                            cellhit = z3.Or(*[z3.And(is_target(i), z3.BoolVal(any(c is rv.fields[0].cell for (_, _, c) in fr.maps[i].entries))) for i in chain])
                            post.append(cellhit)
                        else:
                            post.append(z3.Not(bound_somewhere))
                        label = "lookup returns the innermost binding (a reference to the defining frame's cell)"
                    chk.oblige(ex, unit, label, z3.And(*post), inputs, replay)


# ------------------------------------------------------------------------------------------------ vectors
def int_value(t):
    return Adt("Value", "Number", [Adt("Number", "Integer", [t])])


def mk_vector(ex, name, elems, ln, mutable=True):
    seq = SeqObj(name, "values::Value<R>", [Cell(int_value(e)) for e in elems], ln, len(elems))
    rc = Ref(Cell(seq, name + ".rc"))
    return Adt("Value", "Vector", [Adt("ValueReference", "Mutable" if mutable else "Immutable", [rc])]), seq


def elem_int(ex, v):
    """the integer inside Value::Number(Integer(i)) (elements are opaque to the vector operations; integers make them comparable)"""
    v = ex.deref(v)
    if isinstance(v, Adt) and v.variant == "Number" and isinstance(v.fields[0], Adt) and v.fields[0].variant == "Integer":
        return v.fields[0].fields[0]
    raise Unsupported("vector element is not the integer it was initialised with: %r" % (v,))


def seq_of_value(ex, v):
    v = ex.deref(v)
    if isinstance(v, Adt) and v.variant == "Vector":
        return ex.deref(v.fields[0].fields[0])
    raise Unsupported("not a vector value %r" % (v,))


def vec_tokens(kind, elems, ln):
    return "%s %d %s" % (kind, ln, " ".join("I %d" % e for e in elems[:ln]))


def spec_vector_set(chk, L, how):
    """how: 'clone' (Value::clone, what passing/binding does) | 'container' (stored in and fetched from another vector)"""
    ex = chk.executor(True)
    ex.inline_clone_types = ("Value", "ValueReference")
    nat = chk.ws.runner("dev")
    unit = "builtin vector-set! / aliases by %s" % how
    e = [z3.Int("e%d" % i) for i in range(L)]
    d = [z3.Int("d%d" % i) for i in range(L)]
    ln = z3.Int("len")
    k = ex.fresh_int(name="k", ty="i32")
    obj = z3.Int("obj")
    mut = z3.Bool("mutable")
    ex.ctx.add(ln >= 0, ln <= L)
    inputs = {"len": ln, "k": k, "obj": obj, "mutable": mut}
    for i in range(L):
        inputs["e%d" % i] = e[i]
        inputs["d%d" % i] = d[i]
    chk.region_ns = {}
    fset = ex.resolve("vector_set")
    fref = ex.resolve("vector_ref")
    fclone = ex.resolve("<values::Value<R> as Clone>::clone")

    def replay(vals):
        n = vals["len"]
        kind = "VM" if vals["mutable"] else "VI"
        ev = [vals["e%d" % i] for i in range(L)]
        dv = [vals["d%d" % i] for i in range(L)]
        if how == "clone":
            cmd = "builtin %s 5 %s I %d I %d REF 0 %s" % (hexs("vector-set!"), vec_tokens(kind, ev, n), vals["k"], vals["obj"], vec_tokens("VM", dv, n))
        else:
            cmd = "builtin %s 5 %s I %d I %d VM 1 REF 0 %s" % (hexs("vector-set!"), vec_tokens(kind, ev, n), vals["k"], vals["obj"], vec_tokens("VM", dv, n))
        out = nat.cmd(cmd)
        if out.startswith(("PANIC", "ABORT")):
            return True, "%s -> native panicked" % cmd
        res, after = out.split(" ;; ")
        parts = [p.strip() for p in after.split(" | ")]
        kk = vals["k"]
        inrange = 0 <= kk < n
        exp = list(ev[:n])
        if not vals["mutable"]:
            exp_res = "ERR RequiresMutable"
        elif not inrange:
            exp_res = "ERR VectorIndexOutOfBounds"
        else:
            exp_res = "OK U"
            exp[kk] = vals["obj"]
        exp_vec = vec_tokens(kind, exp, n).strip()
        alias = parts[3] if how == "clone" else parts[3].split(" ", 2)[2] if parts[3].startswith("VM 1") else parts[3]
        bad = (" ".join(res.split()[:2]) != exp_res) or parts[0].strip() != exp_vec or alias.strip() != exp_vec or parts[4].strip() != vec_tokens("VM", dv, n).strip()
        return bad, "%s -> %s ;; %s   (expected %s, vector and alias %s, distinct vector unchanged)" % (cmd, res, after, exp_res, exp_vec)

    ex.panic_hook = lambda info: chk.oblige(ex, unit, "no-panic", z3.BoolVal(False), inputs, replay)
    for mutable in ex.branches([mut, z3.Not(mut)]):
        is_mut = (mutable == 0)
        h1, seq1 = mk_vector(ex, "v", e, ln, is_mut)
        dist, seqd = mk_vector(ex, "w", d, ln, True)
        # second handle to the same vector
        if how == "clone":
            handles = list(ex.run(fclone, [Ref(Cell(h1))]))
        else:
            box, _ = mk_vector(ex, "box", [z3.IntVal(0)], 1, True)
            bseq = seq_of_value(ex, box)
            bseq.items[0].v = h1
            handles = None
        def with_handle(h2):
            args = SeqObj("args", "values::Value<R>", [Cell(h1), Cell(int_value(k)), Cell(int_value(obj))], 3, 3)
            for rv in ex.run(fset, [args]):
                chk.path(unit)
                inrange = z3.And(k >= 0, k < ln)
                ok = rv.variant == "Ok"
                post = []
                if ok:
                    post.append(z3.And(z3.BoolVal(is_mut), inrange))
                else:
                    kind = nl.err_kind(ex, rv.fields[0])
                    post.append(z3.If(z3.BoolVal(not is_mut), z3.BoolVal(kind == "RequiresMutable"), z3.And(z3.Not(inrange), z3.BoolVal(kind == "VectorIndexOutOfBounds"))))
                s2 = seq_of_value(ex, h2)
                post.append(z3.BoolVal(s2 is seq1))          # the alias designates the same storage
                post.append(z3.BoolVal(seqd is not seq1))
                post.append(zeq(seq1.ln, ln))
                for j in range(L):
                    got = elem_int(ex, ex.seq_item(seq1, j).v)
                    exp = z3.If(z3.And(z3.BoolVal(ok), k == j), obj, e[j])
                    post.append(z3.Implies(ln > j, got == exp))
                    post.append(z3.Implies(ln > j, elem_int(ex, ex.seq_item(seqd, j).v) == d[j]))
                chk.oblige(ex, unit, "write through one handle is seen at index k and only there, through every alias; distinct vectors never; literal vectors reject it; bad index => error, nothing changed",
                           z3.And(*post), inputs, replay)
                # and reading through the alias with the real vector-ref
                if ok:
                    for j in range(L):
                        for _ in ex.branches([ln > j]):
                            rargs = SeqObj("rargs", "values::Value<R>", [Cell(h2), Cell(int_value(z3.IntVal(j)))], 2, 2)
                            for rr in ex.run(fref, [rargs]):
                                chk.path(unit)
                                good = rr.variant == "Ok"
                                p2 = z3.BoolVal(False)
                                if good:
                                    p2 = elem_int(ex, rr.fields[0]) == z3.If(k == j, obj, e[j])
                                chk.oblige(ex, unit, "vector-ref through the alias returns the written object at k, the old one elsewhere", p2, inputs, replay)
        if how == "clone":
            for h2 in handles:
                with_handle(h2)
        else:
            rargs = SeqObj("fetch", "values::Value<R>", [Cell(box), Cell(int_value(z3.IntVal(0)))], 2, 2)
            for rr in ex.run(fref, [rargs]):
                if rr.variant != "Ok":
                    raise Unsupported("fetching the stored vector failed")
                with_handle(rr.fields[0])


def spec_vector_set_object_identity(chk):
    """storing an object that is EQUAL to, but distinct from, what the slot holds must still replace it: the slot then
    designates the stored object (another vector with equal contents; an equal number)"""
    ex = chk.executor(True)
    ex.inline_clone_types = ("Value", "ValueReference")
    nat = chk.ws.runner("dev")
    unit = "builtin vector-set! / stored object identity"
    chk.region_ns = {}
    fset = ex.resolve("vector_set")
    x = z3.Int("x")

    def replay(vals):
        prog = "(define a (vector %d)) (define b (vector %d)) (define box (vector a))\n(vector-set! box 0 b)\n(vector-set! b 0 99)\n(vector-ref (vector-ref box 0) 0)\n(vector-ref a 0)" % (vals["x"], vals["x"])
        out = [o.strip() for o in nat.cmd("eval %s" % hexs(prog)).split(" ;; ")]
        return out[-2:] != ["OK I 99", "OK I %d" % vals["x"]], "%s -> %s (expected 99 and %d)" % (prog, out[-2:], vals["x"])

    a, seq_a = mk_vector(ex, "a", [x], 1, True)
    b, seq_b = mk_vector(ex, "b", [x], 1, True)          # equal contents, distinct storage
    box, seq_box = mk_vector(ex, "box", [z3.IntVal(0)], 1, True)
    seq_box.items[0].v = a
    ex.panic_hook = lambda info: chk.oblige(ex, unit, "no-panic", z3.BoolVal(False), {"x": x}, replay)
    args = SeqObj("args", "values::Value<R>", [Cell(box), Cell(int_value(z3.IntVal(0))), Cell(b)], 3, 3)
    for rv in ex.run(fset, [args]):
        chk.path(unit)
        ok = rv.variant == "Ok"
        now = None
        try:
            now = seq_of_value(ex, ex.seq_item(seq_box, 0).v)
        except Unsupported:
            pass
        chk.oblige(ex, unit, "after (vector-set! v k obj) slot k designates obj itself, also when obj is equal to the old content", z3.BoolVal(ok and now is seq_b), {"x": x}, replay)


def spec_new_child(chk):
    """LexicalScope::new / new_child: a root has no parent; a child's parent is exactly the given frame (whatever it holds), and it starts empty"""
    nat = chk.ws.runner("dev")
    for parent_kind in ("root-empty", "root-nonempty", "child-empty", "child-nonempty"):
        ex = chk.executor(True)
        unit = "LexicalScope::new_child"
        chk.region_ns = {}
        root = Ref(Cell(Adt("LexicalScope", None, [NONE, MapObj("r")]), "rootf"))
        pm = MapObj("p")
        if parent_kind.endswith("nonempty"):
            pm.entries.append((StrVal("x"), z3.BoolVal(True), Cell(z3.IntVal(1))))
        parent = Ref(Cell(Adt("LexicalScope", None, [NONE if parent_kind.startswith("root") else Some(root), pm]), "parentf"))
        f = [x_ for n_, l in ex.fns.items() for x_ in l if n_.endswith(">::new_child") and "environment::" in n_][0]

        def replay(vals, parent_kind=parent_kind):
            # frames: 0 root, 1 parent (child of root or root), 2 = new child of 1 ; set x through the child and read it through the parent
            if parent_kind.startswith("root"):
                cmd = "scope 2 -1 0 %d %s set 1 %s 7" % (1, "0 %s 1" % hexs("x"), hexs("x"))
            else:
                cmd = "scope 3 -1 0 1 1 0 %s 1 define 1 %s 5" % (hexs("x"), hexs("x"))
            out = nat.cmd(cmd)
            return False, "structural (native: %s)" % out[:80]

        for rv in ex.run(f, [parent]):
            chk.path(unit)
            good = isinstance(rv, Adt) and rv.ty == "LexicalScope" and isinstance(rv.fields[0], Adt) and rv.fields[0].variant == "Some" \
                and isinstance(rv.fields[0].fields[0], Ref) and rv.fields[0].fields[0].cell is parent.cell and isinstance(rv.fields[1], MapObj) and not rv.fields[1].entries and rv.fields[1] is not pm
            chk.oblige(ex, unit, "the new frame's parent is exactly the given frame (%s) and the new frame is empty" % parent_kind, z3.BoolVal(bool(good)), {},
                       lambda vals: skel.scheme_shape_probe(nat, 0, False, 0, 1, 1))


def zeq(a, b):
    return (a == b) if not isinstance(a, int) else (z3.IntVal(a) == b)


def spec_vector_ref(chk, L):
    ex = chk.executor(True)
    ex.inline_clone_types = ("Value", "ValueReference")
    nat = chk.ws.runner("dev")
    unit = "builtin vector-ref / vector-length"
    e = [z3.Int("e%d" % i) for i in range(L)]
    ln = z3.Int("len")
    k = ex.fresh_int(name="k", ty="i32")
    mut = z3.Bool("mutable")
    ex.ctx.add(ln >= 0, ln <= L)
    inputs = {"len": ln, "k": k, "mutable": mut}
    for i in range(L):
        inputs["e%d" % i] = e[i]
    chk.region_ns = {}
    fref = ex.resolve("vector_ref")
    flen = ex.resolve("vector_length")

    def replay(vals):
        n = vals["len"]
        kind = "VM" if vals["mutable"] else "VI"
        ev = [vals["e%d" % i] for i in range(L)]
        out = nat.cmd("builtin %s 2 %s I %d" % (hexs("vector-ref"), vec_tokens(kind, ev, n), vals["k"]))
        res = out.split(" ;; ")[0]
        kk = vals["k"]
        exp = "OK I %d" % ev[kk] if 0 <= kk < n else "ERR VectorIndexOutOfBounds"
        got = " ".join(res.split()[:3]) if res.startswith("OK") else " ".join(res.split()[:2])
        out2 = nat.cmd("builtin %s 1 %s" % (hexs("vector-length"), vec_tokens(kind, ev, n))).split(" ;; ")[0]
        return (got != exp) or out2.strip() != "OK I %d" % n, "vector-ref %s[%d] -> %s (expected %s); vector-length -> %s (expected %d)" % (ev[:n], kk, got, exp, out2, n)

    ex.panic_hook = lambda info: chk.oblige(ex, unit, "no-panic", z3.BoolVal(False), inputs, replay)
    for mutable in ex.branches([mut, z3.Not(mut)]):
        h1, seq1 = mk_vector(ex, "v", e, ln, mutable == 0)
        args = SeqObj("args", "values::Value<R>", [Cell(h1), Cell(int_value(k))], 2, 2)
        for rv in ex.run(fref, [args]):
            chk.path(unit)
            inrange = z3.And(k >= 0, k < ln)
            if rv.variant == "Ok":
                got = elem_int(ex, rv.fields[0])
                exp = e[0] if L else z3.IntVal(0)
                for j in range(1, L):
                    exp = z3.If(k == j, e[j], exp)
                post = z3.And(inrange, got == exp)
            else:
                post = z3.And(z3.Not(inrange), z3.BoolVal(nl.err_kind(ex, rv.fields[0]) == "VectorIndexOutOfBounds"))
            chk.oblige(ex, unit, "vector-ref: element k for 0 <= k < len, VectorIndexOutOfBounds otherwise (negative k included)", post, inputs, replay)
        args = SeqObj("args", "values::Value<R>", [Cell(h1)], 1, 1)
        for rv in ex.run(flen, [args]):
            chk.path(unit)
            post = z3.BoolVal(False)
            if rv.variant == "Ok":
                post = nl.result_number(ex, rv.fields[0].fields[0])[1] == ln
            chk.oblige(ex, unit, "vector-length = number of elements", post, inputs, replay)


def spec_make_vector(chk, L):
    ex = chk.executor(True)
    ex.inline_clone_types = ("Value", "ValueReference")
    ex.from_elem_max = L
    nat = chk.ws.runner("dev")
    unit = "builtin make-vector / vector"
    k = ex.fresh_int(name="k", ty="i32")
    fill = z3.Int("fill")
    inputs = {"k": k, "fill": fill}
    chk.region_ns = {}
    f = ex.resolve("make_vector")
    beyond = []
    ex.from_elem_overflow = lambda ex_, n: beyond.append(1)

    def replay(vals):
        if vals["k"] > 64:
            return False, "length beyond replay budget"
        out = nat.cmd("builtin %s 2 I %d I %d" % (hexs("make-vector"), vals["k"], vals["fill"])).split(" ;; ")[0]
        exp = "ERR NegativeLength" if vals["k"] < 0 else ("OK " + vec_tokens("VM", [vals["fill"]] * vals["k"], vals["k"])).strip()
        got = out.strip() if out.startswith("OK") else " ".join(out.split()[:2])
        return got != exp, "make-vector %d %d -> %s (expected %s)" % (vals["k"], vals["fill"], got, exp)

    ex.panic_hook = lambda info: chk.oblige(ex, unit, "no-panic", z3.BoolVal(False), inputs, replay)
    args = SeqObj("args", "values::Value<R>", [Cell(int_value(k)), Cell(int_value(fill))], 2, 2)
    for rv in ex.run(f, [args]):
        chk.path(unit)
        if rv.variant == "Ok":
            v = rv.fields[0]
            ismut = isinstance(v, Adt) and v.variant == "Vector" and v.fields[0].variant == "Mutable"
            seq = seq_of_value(ex, v)
            post = [z3.BoolVal(ismut), k >= 0, zeq(seq.ln, k)]
            n = seq.ln if isinstance(seq.ln, int) else L
            for j in range(min(n, seq.max)):
                post.append(elem_int(ex, ex.seq_item(seq, j).v) == fill)
            chk.oblige(ex, unit, "make-vector k obj: a fresh mutable vector of k copies of obj", z3.And(*post), inputs, replay)
        else:
            chk.oblige(ex, unit, "make-vector: negative length => NegativeLength", z3.And(k < 0, z3.BoolVal(nl.err_kind(ex, rv.fields[0]) == "NegativeLength")), inputs, replay)
    # a vector as the fill object: every slot (and the fill itself) designates the same storage
    inner, iseq = mk_vector(ex, "fillvec", [z3.Int("f0")], 1, True)
    k2 = ex.fresh_int(name="k2", ty="i32")
    inputs3 = {"k": k2}

    def replay3(vals):
        kk = vals["k"]
        if kk > 8 or kk < 1:
            return False, "outside replay range"
        prog = "(define row (vector 0)) (define m (make-vector %d row)) (vector-set! (vector-ref m %d) 0 7) (vector-ref row 0) (vector-ref (vector-ref m 0) 0)" % (kk, kk - 1)
        out = nat.cmd("eval %s" % hexs(prog)).split(" ;; ")
        return not (out[-1].strip() == "OK I 7" and out[-2].strip() == "OK I 7"), "%s -> %s" % (prog, out[-2:])

    args = SeqObj("args", "values::Value<R>", [Cell(int_value(k2)), Cell(inner)], 2, 2)
    for rv in ex.run(f, [args]):
        chk.path(unit)
        if rv.variant != "Ok":
            continue
        seq = seq_of_value(ex, rv.fields[0])
        n = seq.ln if isinstance(seq.ln, int) else L
        same = [z3.BoolVal(seq_of_value(ex, ex.seq_item(seq, j).v) is iseq) for j in range(min(n, seq.max))]
        chk.oblige(ex, unit, "make-vector k v with a vector v: every slot is an alias of v (no copy)", z3.And(*same) if same else z3.BoolVal(True), inputs3, replay3)
    if beyond:
        chk.notes.append("make-vector: lengths beyond %d are outside the bound (path cut %d time(s))" % (L, len(beyond)))
    # (vector a b ...) builds a fresh mutable vector of its arguments in order
    fv = ex.resolve("base::vector") if ex.resolve("base::vector") else ex.resolve("vector")
    e = [z3.Int("a%d" % i) for i in range(L)]
    ln = z3.Int("argc")
    ex.ctx.add(ln >= 0, ln <= L)
    inputs2 = {"argc": ln}
    for i in range(L):
        inputs2["a%d" % i] = e[i]

    def replay2(vals):
        n = vals["argc"]
        ev = [vals["a%d" % i] for i in range(n)]
        out = nat.cmd("builtin %s %d %s" % (hexs("vector"), n, " ".join("I %d" % x for x in ev))).split(" ;; ")[0]
        exp = ("OK " + vec_tokens("VM", ev, n)).strip()
        return out.strip() != exp, "vector %s -> %s" % (ev, out)

    args = SeqObj("args", "values::Value<R>", [Cell(int_value(x)) for x in e], ln, L)
    for rv in ex.run(fv, [args]):
        chk.path(unit)
        post = z3.BoolVal(False)
        if rv.variant == "Ok":
            v = rv.fields[0]
            seq = seq_of_value(ex, v)
            ps = [z3.BoolVal(v.fields[0].variant == "Mutable"), zeq(seq.ln, ln), z3.BoolVal(all(seq.items[j] is not args.items[j] for j in range(min(L, seq.max))))]
            n = seq.ln if isinstance(seq.ln, int) else L
            for j in range(min(n, L)):
                ps.append(elem_int(ex, ex.seq_item(seq, j).v) == e[j])
            post = z3.And(*ps)
        chk.oblige(ex, unit, "vector: fresh mutable vector holding the arguments in order", post, inputs2, replay2)


def validate(chk, rng):
    nat = chk.ws.runner("dev")
    ex = chk.executor(True)
    ex.inline_clone_types = ("Value", "ValueReference")
    fref = ex.resolve("vector_ref")
    fset = ex.resolve("vector_set")
    from .c09 import run_concrete
    # the vectors and indices of base.rs' builtin_vector_ref / builtin_vector_set tests, plus boundary and random ones
    cases = [([5, 7, 9], 0), ([5, 7, 9], 1), ([5, 7, 9], 2), ([5, 7, 9], 3), ([5, 7, 9], -1), ([], 0), ([1], 2**31 - 1), ([1], -2**31)]
    for _ in range(20):
        n = rng.randint(0, 3)
        cases.append(([rng.randint(-9, 9) for _ in range(n)], rng.randint(-2, 4)))
    for ev, kk in cases:
        for mutable in (True, False):
            h, _ = mk_vector(ex, "cv", [z3.IntVal(x) for x in ev], len(ev), mutable)
            args = SeqObj("a", "?", [Cell(h), Cell(int_value(z3.IntVal(kk)))], 2, 2)
            sym = run_concrete(ex, fref, [args])
            out = nl.norm_native(nat.cmd("builtin %s 2 %s I %d" % (hexs("vector-ref"), vec_tokens("VM" if mutable else "VI", ev, len(ev)), kk)))
            chk.validate("vector-ref", "%s[%d]" % (ev, kk), sym, out)
            h, _ = mk_vector(ex, "cv", [z3.IntVal(x) for x in ev], len(ev), mutable)
            args = SeqObj("a", "?", [Cell(h), Cell(int_value(z3.IntVal(kk))), Cell(int_value(z3.IntVal(42)))], 3, 3)
            sym = run_concrete(ex, fset, [args])
            out = nl.norm_native(nat.cmd("builtin %s 3 %s I %d I 42" % (hexs("vector-set!"), vec_tokens("VM" if mutable else "VI", ev, len(ev)), kk)))
            chk.validate("vector-set!", "%s[%d] mutable=%s" % (ev, kk, mutable), sym, out)


def run(chk):
    rng = random.Random(chk.seed)
    thorough = chk.tier == "thorough"
    L = 5 if thorough else 3
    chk.bounds = {
        "scope state": "arbitrary frame forests: chain of %d frames plus a sibling sharing the root, %d names; every (frame,name) presence bit and value symbolic; one step of set/define/get/get_mut from every frame"
                       % ((4, 3) if thorough else (3, 2)),
        "vectors": "length <= %d, symbolic index (all i32), symbolic written object, mutable and literal, aliases by Value::clone and by storing in / fetching from another vector" % L,
    }
    chk.assumptions += [
        "V of LexicalScope<V> is instantiated by an opaque scalar (the code never inspects V: parametricity); std HashMap is modelled (per-key presence bit + slot), not verified",
        "RefCell borrow flags and Rc counts are not modelled",
        "vector elements are integers (the vector operations never inspect elements)",
        "that the evaluator calls set for set! and clones values when passing them is checked at skeleton level in C01/C02; whole programs are outside",
    ]
    chk.step("validate", validate, chk, rng)
    if thorough:
        shapes = [([-1, 0, 1, 0], 3), ([-1, 0, 1, 2], 2)]
    else:
        shapes = [([-1, 0, 1, 0], 2)]
    for parents, nn in shapes:
        chk.step("scope %s" % parents, spec_scope, chk, parents, nn)
    chk.step("vector-set! clone", spec_vector_set, chk, L, "clone")
    chk.step("vector-set! container", spec_vector_set, chk, L, "container")
    chk.step("vector-ref", spec_vector_ref, chk, L)
    chk.step("make-vector", spec_make_vector, chk, L)
    chk.run_probes("procedure shapes", skel.shape_probe_selfcheck, chk.ws.runner("dev"), 6 * len(skel.SHAPES))
    chk.step("stored object identity", spec_vector_set_object_identity, chk)
    chk.step("new_child", spec_new_child, chk)
    from .c01_parts import spec_apply_scheme
    chk.step("fresh frame per call", spec_apply_scheme, chk, "", ("fresh", "bind"))
    # a definition binds, in the frame it is evaluated in, the very value its initialiser produced (no copy, no change of
    # mutability, no assignment to an outer binding of the same name) - the unit of C01
    from .c01_parts import spec_definition
    chk.step("definitions", spec_definition, chk)
