"""Skeleton runs of the evaluator's control code with its callees replaced by logging nondeterministic stubs.
Shared by C01, C02, C03 (frame freshness) and C08 (arity in every calling context)."""
import re

import z3

from ..core import Adt, Lazy, Ref, Cell, SeqObj, MapObj, StrVal, Tup, Opaque, IterObj, NoModel, Unsupported, tput, tset
from ..models import Some, NONE, Ok, Err, drain, make_iter
from ..mir import ENUMS

MAXARGS = 4


def stub(ex, pattern, label):
    def deco(fn):
        ex.stubs.append((re.compile(pattern), fn, label))
        return fn
    return deco


def each_value(ex, term, values):
    """fork over the concrete values a path may have left open for `term` (an input the code did not look at must be
    right for every value it can have - never pick 'the first feasible one' for the oracle)"""
    values = list(values)
    for i in ex.branches([term == v for v in values]):
        yield values[i]


def err_value(tag):
    return Opaque("error::Located<error::ErrorData>", tag)


class Arity:
    """symbolic (fixed, variadic) per procedure object, created on demand with deterministic names"""

    def __init__(self, ex):
        self.ex = ex
        self.vars = {}

    def key_of(self, obj):
        name = getattr(obj, "name", None)
        if name is None:
            raise Unsupported("arity of unnamed object %r" % (obj,))
        return name.split(".")[0]

    def of(self, key):
        if key not in self.vars:
            fx = z3.Int("fixed_" + key)
            va = z3.Bool("variadic_" + key)
            self.ex.ctx.add_global(fx >= 0, fx <= MAXARGS)
            self.vars[key] = (fx, va)
        return self.vars[key]


def seq_len_term(seq):
    return z3.IntVal(seq.ln) if isinstance(seq.ln, int) else seq.ln


# ================================================================================================ apply_procedure (trampoline)
def run_apply_procedure(chk, ex, K, on_path):
    """explores Interpreter::apply_procedure for K trampoline iterations from an arbitrary procedure / argument vector.
    on_path(result, events, arity, info) is called at the end of every path with the path condition on the solver stack."""
    ar = Arity(ex)
    counter = {"calls": 0}
    cuts = {"n": 0}
    created = {}

    @stub(ex, r"ParameterFormalsBody>>::len$", "ParameterFormals::len -> symbolic (fixed, variadic) of that procedure")
    def formals_len(ex, callee, args, rt):
        o = ex.deref(args[0])
        fx, va = ar.of(ar.key_of(o))
        ex.log("len", proc=ar.key_of(o))
        yield Tup([fx, va])

    @stub(ex, r"::apply_scheme_procedure$", "apply_scheme_procedure -> any Ok(TailCall|Value) or any Err; logged")
    def apply_scheme(ex, callee, args, rt):
        formals = ex.deref(args[0])
        av = ex.deref(args[4])
        n = len([e for e in ex.events if e["kind"].startswith("enter")])
        ex.log("enter_scheme", proc=ar.key_of(formals), args=av, closure=args[3])
        yield Ok(Lazy("TailExpressionResult", "ter%d" % n))
        yield Err(err_value("from apply_scheme_procedure"))

    @stub(ex, r"^BuiltinProcedureBody::apply$", "BuiltinProcedureBody::apply -> any result; logged")
    def builtin_apply(ex, callee, args, rt):
        body = ex.deref(args[0])
        ex.log("enter_builtin", proc=ar.key_of(body), args=ex.deref(args[1]))
        yield Lazy("std::result::Result<values::Value<R>, error::Located<error::ErrorData>>", "builtin_result")

    @stub(ex, r"::eval_procedure_call$", "eval_procedure_call -> any Ok((procedure, args)) or any Err; logged")
    def eval_call(ex, callee, args, rt):
        n = len([e for e in ex.events if e["kind"] == "eval_procedure_call"]) + 1
        # resolve the referents now: the references point into locals that the next iteration overwrites
        ex.log("eval_procedure_call", expr=name_of(ex, args[0]), operands=name_of(ex, args[1]), env=name_of(ex, args[2]))
        if n >= K:
            cuts["n"] += 1       # stated bound: K trampoline iterations
            return
        seq = ex.fresh_seq("args%d" % n, "values::Value<R>", maxlen=MAXARGS)
        created["args%d" % n] = seq
        yield Ok(Tup([Lazy("values::Procedure<R>", "proc%d" % n), seq]))
        yield Err(err_value("from eval_procedure_call"))

    @stub(ex, r"::apply_procedure$|::eval_expression$|::eval_tail_expression$", "recursive evaluator entry: must not be reached from the trampoline")
    def recursive(ex, callee, args, rt):
        ex.log("recursive_call", callee=callee)
        yield Lazy("std::result::Result<values::Value<R>, error::Located<error::ErrorData>>", "rec_result")

    @stub(ex, r"Procedure<R> as PartialEq>::(eq|ne)$", "Procedure equality -> true for the same object, otherwise an arbitrary boolean")
    def proc_eq(ex, callee, args, rt):
        a, b = ex.deref(args[0]), ex.deref(args[1])
        r = z3.BoolVal(True) if a is b else ex.fresh_bool("proc_eq")
        yield r if callee.endswith("eq") else z3.Not(r)

    f = ex.fn_by_suffix("::apply_procedure")
    proc0 = Lazy("values::Procedure<R>", "proc0")
    args0 = ex.fresh_seq("args0", "values::Value<R>", maxlen=MAXARGS)
    created["args0"] = args0
    env = Ref(Cell(Opaque("Rc<Environment>", "env0"), "env0"))
    for rv in ex.run(f, [Ref(Cell(proc0)), args0, Ref(Cell(env))]):
        on_path(rv, list(ex.events), ar, {"args0": args0, "args": created})
    return {"cuts": cuts["n"]}


def arity_ok(fx, va, nargs):
    return z3.And(nargs >= fx, z3.Or(nargs <= fx, va))


BUILTIN_BY_ARITY = {(0, False): "newline", (1, False): "car", (2, False): "cons", (3, False): "vector-set!", (0, True): "+", (1, True): "-"}


def arity_program(kind, iteration, fixed, variadic, nargs):
    """a Scheme program that reaches a procedure with the given parameter shape through the given calling context
    with nargs arguments; returns (text, index of the form whose result matters)"""
    if kind == "enter_builtin":
        name = BUILTIN_BY_ARITY.get((fixed, variadic))
        if name is None:
            return None
        callee = name
        defs = ""
    else:
        params = " ".join("p%d" % i for i in range(fixed))
        if variadic:
            plist = "(f %s . rest)" % params if fixed else "(f . rest)"
        else:
            plist = "(f %s)" % params if fixed else "(f)"
        defs = "(define %s 0)\n" % plist
        callee = "f"
    call = "(%s%s)" % (callee, "".join(" %d" % (i + 1) for i in range(nargs)))
    if iteration == 0:
        return defs + call, (1 if defs else 0)
    # reached as a tail call of `iteration` nested user procedures
    text = defs
    inner = call
    for d in range(iteration):
        text += "(define (g%d) %s)\n" % (d, inner)
        inner = "(g%d)" % d
    text += inner
    return text, (1 if defs else 0) + iteration


# ================================================================================================ apply_scheme_procedure
class Formal:
    def __init__(self, name):
        self.name = name

    def __repr__(self):
        return "<formal %s>" % self.name


def frame_of(ex, envarg):
    """(rc cell, scope value, MapObj) of an `&Rc<Environment>` / `Rc<Environment>` argument"""
    r = envarg
    # peel references until the Ref whose target is the LexicalScope struct
    while isinstance(r, Ref):
        v = ex.load(r)
        if isinstance(v, Adt) and v.ty == "LexicalScope":
            return r.cell, v, v.fields[1]
        if isinstance(v, Opaque):
            return r.cell, v, None
        if isinstance(v, Lazy) and "LexicalScope" in v.ty:
            m = ex.project(v, ("f", 1, "cell::RefCell<std::collections::HashMap<std::string::String, values::Value<R>>>"))
            return r.cell, v, (m if isinstance(m, MapObj) else None)
        r = v
    raise Unsupported("not an environment reference: %r" % (envarg,))


def bound_names(m):
    out = set()
    for (k, p, c) in m.entries:
        kc = k.concrete() if isinstance(k, StrVal) else None
        if kc is not None and (p is True or z3.is_true(z3.simplify(p))):
            out.add(kc)
    return out


def run_apply_scheme(chk, ex, on_path, holder=None, max_defs=2, max_body=3):
    ar = Arity(ex)
    formals = Lazy("parser::ParameterFormals", "lam.formals")
    fx, va = ar.of("lam")
    names = ["p%d" % i for i in range(MAXARGS)]
    state = {}

    @stub(ex, r"ParameterFormalsBody>>::len$", "ParameterFormals::len -> symbolic (fixed, variadic)")
    def formals_len(ex, callee, args, rt):
        yield Tup([fx, va])

    @stub(ex, r"ParameterFormalsBody>>::iter_to_last", "ParameterFormals::iter_to_last: visits `fixed` formals in order, returns the rest formal iff variadic (abstract parameter list)")
    def iter_to_last(ex, callee, args, rt):
        visitor = args[1]
        for k in ex.branches([fx == i for i in range(MAXARGS + 1)]):
            def visit(i):
                if i == k:
                    for b in ex.branches([va, z3.Not(va)]):
                        yield Some(Ref(Cell(Formal("rest")))) if b == 0 else NONE
                    return
                clo = Ref(Cell(visitor)) if not isinstance(visitor, Ref) else visitor
                for _ in ex.call_closure(clo, [Ref(Cell(Formal(names[i])))]):
                    yield from visit(i + 1)
            yield from visit(0)

    @stub(ex, r"ParameterFormalsBody>>::as_name$", "ParameterFormals::as_name -> the formal's name")
    def as_name(ex, callee, args, rt):
        f = ex.deref(args[0])
        if not isinstance(f, Formal):
            raise Unsupported("as_name of %r" % (f,))
        yield StrVal(f.name)

    def snapshot(ex, envarg):
        cell, scope, m = frame_of(ex, envarg)
        return cell, (bound_names(m) if m is not None else None)

    @stub(ex, r"::eval_expression$", "eval_expression -> any Ok(value) or any Err; logged with expression object, environment object and the names bound at that moment")
    def eval_expr(ex, callee, args, rt):
        n = len([e for e in ex.events if e["kind"] in ("eval", "eval_tail")])
        cell, bound = snapshot(ex, args[1])
        ex.log("eval", expr=ex.deref(args[0]), env=cell, bound=bound)
        v = Lazy("values::Value<R>", "ev%d" % n)
        for b in ex.branches([True, True]):
            if b == 0:
                ex.log("eval_ok", value=v)
                yield Ok(v)
            else:
                e = err_value("from eval_expression #%d" % n)
                ex.log("eval_err", error=e)
                yield Err(e)

    @stub(ex, r"::eval_tail_expression$", "eval_tail_expression -> an opaque result, passed through; logged")
    def eval_tail(ex, callee, args, rt):
        cell, bound = snapshot(ex, args[1])
        r = Opaque("Result<TailExpressionResult>", "tail_result")
        ex.log("eval_tail", expr=ex.deref(args[0]), env=cell, bound=bound, result=r)
        yield r

    @stub(ex, r"as Iterator>::collect::<pair::GenericPair|as Iterator>::collect::<GenericPair|as Iterator>::collect::<values::Pair", "collect::<Pair<R>>: the list of the remaining items in order (GenericPair's FromIterator is not encoded here)")
    def collect_pair(ex, callee, args, rt):
        for items in drain(ex, make_iter(ex, args[0], False)):
            yield Adt("ListOf", None, list(items))

    f = ex.fn_by_suffix("::apply_scheme_procedure")
    closure_map = MapObj("closure_defs")
    root_rc = Ref(Cell(Adt("LexicalScope", None, [NONE, MapObj("root_defs")]), "root_frame"))
    # the closure's frame is an EMPTY, NON-ROOT frame: the case in which "optimisations" of frame allocation go wrong
    closure_rc = Ref(Cell(Adt("LexicalScope", None, [Some(root_rc), closure_map]), "closure_frame"))
    args = ex.fresh_seq("args", "values::Value<R>", maxlen=MAXARGS)
    nd = z3.Int("ndefs")
    nb = z3.Int("nbody")
    ex.ctx.add(nd >= 0, nd <= max_defs, nb >= 1, nb <= max_body)
    defs = SeqObj("defs", "Definition", [Cell(Adt("Located", None, [Adt("DefinitionBody", None, [StrVal("d%d" % i), Lazy("parser::Expression", "def%d.expr" % i)]),
                                                               Opaque("location", "loc")])) for i in range(max_defs)], nd, max_defs)
    body = SeqObj("body", "Expression", [Cell(Lazy("parser::Expression", "body%d" % i)) for i in range(max_body)], nb, max_body)
    state.update({"closure_rc": closure_rc, "args": args, "defs": defs, "body": body, "fx": fx, "va": va, "nd": nd, "nb": nb, "names": names})
    if holder is not None:
        holder["st"] = state
    call_args = []
    used_closure = False
    for pname, pty in f.params:
        if "ParameterFormalsBody" in pty:
            call_args.append(Ref(Cell(formals)))
        elif "DefinitionBody" in pty:
            call_args.append(defs)
        elif "ExpressionBody" in pty:
            call_args.append(body)
        elif "LexicalScope" in pty and "Option" not in pty and not used_closure:
            call_args.append(closure_rc)
            used_closure = True
        elif "SmallVec" in pty:
            call_args.append(args)
        else:
            # a parameter this harness does not know (added by a refactoring): an arbitrary value of its type
            call_args.append(ex.fresh_value(pty, "extra_" + pname))
    state["root_rc"] = root_rc
    for rv in ex.run(f, call_args):
        on_path(rv, list(ex.events), state)
    return state


def scheme_shape_probe(nat, fixed, variadic, nargs, ndefs, nbody):
    """native probes of a procedure with that parameter/body shape: binding, rest list, order, visibility of internal
    definitions, fresh frame per call.  Returns (bad, detail)."""
    if nargs < fixed or (nargs > fixed and not variadic):
        return False, "shape not callable"
    params = ["p%d" % i for i in range(fixed)]
    plist = " ".join(params) + (" . rest" if variadic else "")
    actual = list(range(1, nargs + 1))
    pvec = "(vector %s %s)" % (" ".join(params), "rest" if variadic else "'none")
    # every internal definition's initialiser can see the parameters (rest parameter included) and the earlier definitions
    defs = "".join("(define d%d (begin (tick %d) %s))" % (i, 10 + i, pvec if i == 0 else "d%d" % (i - 1)) for i in range(ndefs))
    bodies = "".join("(tick %d)" % (20 + i) for i in range(nbody - 1))
    result = "(vector %s %s %s)" % (" ".join(params) if params else "", "rest" if variadic else "'none", " ".join("d%d" % i for i in range(ndefs)))
    prog = ("(define log (make-vector 8 0)) (define n 0) (define (tick k) (vector-set! log n k) (set! n (+ n 1)) k)\n"
            "(define (f %s) %s %s %s)\n(f %s)\nlog\n" % (plist, defs, bodies, result, " ".join(str(a) for a in actual)))
    # second probe: closures created by different calls of one procedure do not share their frame
    prog2 = ("(define (mk %s) (define c 0) (lambda () (set! c (+ c 1)) c))\n(define a (mk %s)) (define b (mk %s))\n(a)\n(b)\n(a)\n" % (plist, " ".join(str(x) for x in actual), " ".join(str(x) for x in actual)))
    # third probe: internal definitions and parameters do not leak into the defining environment
    prog3 = "(define c 100) (define p0 200) (define rest 300)\n(define (g %s) (define c 1) c)\n(g %s)\nc\np0\nrest\n" % (plist, " ".join(str(x) for x in actual))
    from ..harness import hexs
    out = [x.strip() for x in nat.cmd("eval %s" % hexs(prog)).split(" ;; ")]
    exp_vec = ["I %d" % a for a in actual[:fixed]]
    rest = actual[fixed:]
    exp_vec.append(("L %d %s" % (len(rest), " ".join("I %d" % r for r in rest))).strip() if variadic else "Y " + "none".encode().hex())
    pv_items = ["I %d" % a for a in actual[:fixed]] + [exp_vec[-1]]
    pv_tok = "VM %d %s" % (len(pv_items), " ".join(pv_items))
    exp_vec += [pv_tok for i in range(ndefs)]
    exp_res = ("OK VM %d %s" % (len(exp_vec), " ".join(exp_vec))).strip()
    ticks = [10 + i for i in range(ndefs)] + [20 + i for i in range(nbody - 1)]
    exp_log = "OK VM 8 " + " ".join("I %d" % t for t in (ticks + [0] * 8)[:8])
    norm = lambda t: " ".join(t.split())
    got_res, got_log = norm(out[-2]), norm(out[-1])
    exp_res, exp_log = norm(exp_res), norm(exp_log)
    if got_res != exp_res or got_log != exp_log:
        return True, "program %r: result %s (expected %s), evaluation log %s (expected %s)" % (prog, got_res, exp_res, got_log, exp_log)
    out2 = [x.strip() for x in nat.cmd("eval %s" % hexs(prog2)).split(" ;; ")]
    if out2[-3:] != ["OK I 1", "OK I 1", "OK I 2"]:
        return True, "program %r: closures of two calls interfere: %s (expected 1 1 2)" % (prog2, out2[-3:])
    out3 = [x.strip() for x in nat.cmd("eval %s" % hexs(prog3)).split(" ;; ")]
    if out3[-4:] != ["OK I 1", "OK I 100", "OK I 200", "OK I 300"]:
        return True, "program %r: bindings of a call leak into the defining environment: %s (expected 1 100 200 300)" % (prog3, out3[-4:])
    # ... also for a body without internal definitions
    prog3b = "(define p0 200) (define rest 300)\n(define (g2 %s) 'x)\n(g2 %s)\np0\nrest\n" % (plist, " ".join(str(x) for x in actual))
    out3b = [x.strip() for x in nat.cmd("eval %s" % hexs(prog3b)).split(" ;; ")]
    if out3b[-2:] != ["OK I 200", "OK I 300"]:
        return True, "program %r: the parameters of a call leak into the defining environment: %s (expected 200 300)" % (prog3b, out3b[-2:])
    # fourth probe: a closure created inside an internal definition sees LATER internal definitions of the same body and only those
    prog4 = ("(define balance 1)\n(define (mk %s) (define w (let ((k 0)) (lambda (n) (set! balance (- balance n)) balance))) (define balance 100) w)\n"
             "(define w1 (mk %s)) (define w2 (mk %s))\n(w1 10)\n(w2 1)\nbalance\n" % (plist, " ".join(str(x) for x in actual), " ".join(str(x) for x in actual)))
    out4 = [x.strip() for x in nat.cmd("eval %s" % hexs(prog4)).split(" ;; ")]
    if out4[-3:] != ["OK I 90", "OK I 99", "OK I 1"]:
        return True, "program %r: a closure built in an internal definition does not see the body's own later definition: %s (expected 90 99 1)" % (prog4, out4[-3:])
    # fifth probe: a procedure defined internally is visible to a later internal variable definition
    prog5 = "(define (scale x) (* x 100))\n(define (h %s) (define (scale x) (* x 2)) (define y (scale 3)) (+ y 1))\n(h %s)\n" % (plist, " ".join(str(x) for x in actual))
    out5 = [x.strip() for x in nat.cmd("eval %s" % hexs(prog5)).split(" ;; ")]
    if out5[-1] != "OK I 7":
        return True, "program %r: an internal procedure definition is not visible to a later internal definition: %s (expected 7)" % (prog5, out5[-1])
    # sixth probe: closures built in the operands of a self tail call keep the bindings of THEIR iteration
    prog6 = "(define (collect i acc) (if (= i 3) acc (collect (+ i 1) (cons (lambda () i) acc))))\n(define ps (collect 0 '()))\n((car ps))\n((car (cdr ps)))\n((car (cdr (cdr ps))))\n"
    out6 = [x.strip() for x in nat.cmd("eval %s" % hexs(prog6)).split(" ;; ")]
    if out6[-3:] != ["OK I 2", "OK I 1", "OK I 0"]:
        return True, "program %r: closures created in successive iterations of a loop share a frame: %s (expected 2 1 0)" % (prog6, out6[-3:])
    return False, "native probes of this shape behave correctly: %s | %s | %s | %s | %s | %s" % (out[-2:], out2[-3:], out3[-4:], out4[-3:], out5[-1], out6[-3:])


# ================================================================================================ eval_tail_expression
def install_generic_formals(ex, only_split=False):
    """parameter lists as abstract objects for code that walks them through an API the unit's own stubs do not cover:
    (fixed, variadic) per formals object is symbolic, the names are p0.. and rest"""
    ar = Arity(ex)

    def shape(fo):
        key = getattr(fo, "name", None) or "formals"
        return ar.of(key.split(".")[0] if "." in key else key)

    @stub(ex, r"ParameterFormalsBody>>::split$", "ParameterFormals::split -> (the fixed names, the rest name iff variadic) of the abstract parameter list")
    def formals_split(ex_, callee, args, rt):
        fx, va = shape(ex_.deref(args[0]))
        for k in ex_.branches([fx == i for i in range(MAXARGS + 1)]):
            names = SeqObj(ex_.fresh_name("fixed_names"), "String", [Cell(StrVal("p%d" % i)) for i in range(k)] + [Cell(None)], k, k + 1)
            for b in ex_.branches([va, z3.Not(va)]):
                yield Ok(Tup([names, Some(StrVal("rest")) if b == 0 else NONE]))

    if only_split:
        return ar

    @stub(ex, r"ParameterFormalsBody>>::len$", "ParameterFormals::len -> symbolic (fixed, variadic)")
    def formals_len(ex_, callee, args, rt):
        fx, va = shape(ex_.deref(args[0]))
        yield Tup([fx, va])

    @stub(ex, r"ParameterFormalsBody>>::iter_to_last", "ParameterFormals::iter_to_last over the abstract parameter list")
    def iter_to_last(ex_, callee, args, rt):
        fx, va = shape(ex_.deref(args[0]))
        visitor = args[1]
        for k in ex_.branches([fx == i for i in range(MAXARGS + 1)]):
            def visit(i):
                if i == k:
                    for b in ex_.branches([va, z3.Not(va)]):
                        yield Some(Ref(Cell(Formal("rest")))) if b == 0 else NONE
                    return
                clo = Ref(Cell(visitor)) if not isinstance(visitor, Ref) else visitor
                for _ in ex_.call_closure(clo, [Ref(Cell(Formal("p%d" % i)))]):
                    yield from visit(i + 1)
            yield from visit(0)

    @stub(ex, r"ParameterFormalsBody>>::as_name$", "ParameterFormals::as_name -> the formal's name")
    def as_name(ex_, callee, args, rt):
        fo = ex_.deref(args[0])
        if not isinstance(fo, Formal):
            raise Unsupported("as_name of %r" % (fo,))
        yield StrVal(fo.name)
    return ar


def run_eval_tail(chk, ex, depth, on_path):
    install_generic_formals(ex)


    @stub(ex, r"::eval_expression$", "eval_expression -> any Ok(value) or any Err; logged")
    def eval_expr(ex, callee, args, rt):
        n = len([e for e in ex.events if e["kind"] == "eval"])
        envcell = frame_of(ex, args[1])[0]
        ex.log("eval", expr=ex.deref(args[0]), env=envcell)
        v = Lazy("values::Value<R>", "tv%d" % n)
        for b in ex.branches([True, True]):
            if b == 0:
                ex.log("eval_ok", value=v)
                yield Ok(v)
            else:
                e = err_value("from eval_expression #%d" % n)
                ex.log("eval_err", error=e)
                yield Err(e)

    @stub(ex, r"::apply_procedure$|::eval_procedure_call$|::apply_scheme_procedure$", "must not be reached from eval_tail_expression")
    def forbidden(ex, callee, args, rt):
        ex.log("forbidden_call", callee=callee)
        yield Lazy("std::result::Result<values::Value<R>, error::Located<error::ErrorData>>", "forbidden_result")

    f = ex.fn_by_suffix("::eval_tail_expression")
    ex.recursion_limits["::eval_tail_expression"] = depth + 1
    expr = Lazy("parser::Expression", "e")
    envrc = Ref(Cell(Opaque("Environment", "tail_env"), "tail_env_frame"))
    for rv in ex.run(f, [Ref(Cell(expr)), envrc]):
        on_path(rv, list(ex.events), {"expr": expr, "env": envrc})
    return ex.cuts.get("::eval_tail_expression", 0)


def name_of(ex, v):
    """deterministic name of the input object a reference designates (Lazy / SeqObj / the cell that holds it)"""
    x = v
    if isinstance(x, Ref):
        t = ex.load(x)
        if isinstance(t, (Lazy, SeqObj)):
            return t.name
        if isinstance(t, Ref):
            return name_of(ex, t)
        return x.cell.name
    if isinstance(x, (Lazy, SeqObj)):
        return x.name
    return None


# ================================================================================================ eval_expression (one structural step)
def run_eval_expression(chk, ex, on_path, max_operands=3):
    ex.seq_max = max_operands
    counters = {}

    def fresh(kind):
        counters[kind] = counters.get(kind, 0) + 1
        return counters[kind] - 1

    @stub(ex, r"::eval_expression$", "nested eval_expression -> any Ok(value) or any Err; logged (expression object, environment object)")
    def eval_expr(ex, callee, args, rt):
        n = len([e for e in ex.events if e["kind"] == "eval"])
        ex.log("eval", expr=name_of(ex, args[0]), env=frame_of(ex, args[1])[0])
        v = Lazy("values::Value<R>", "ev%d" % n)
        for b in ex.branches([True, True]):
            if b == 0:
                ex.log("eval_ok", value=v)
                yield Ok(v)
            else:
                e = err_value("from nested eval #%d" % n)
                ex.log("eval_err", error=e)
                yield Err(e)

    @stub(ex, r"::apply_procedure$", "apply_procedure -> any Ok(value) or any Err; logged (procedure object, argument vector, environment)")
    def apply_proc(ex, callee, args, rt):
        r = Lazy("std::result::Result<values::Value<R>, error::Located<error::ErrorData>>", "apply_result")
        ex.log("apply", proc=ex.deref(args[0]), args=ex.deref(args[1]), env=frame_of(ex, args[2])[0], result=r)
        yield r

    @stub(ex, r"LexicalScope::<.*>::get$|LexicalScope::get$", "LexicalScope::get -> Some(reference to any value) or None; logged")
    def scope_get(ex, callee, args, rt):
        v = Lazy("values::Value<R>", "looked_up")
        ex.log("get", env=frame_of(ex, args[0])[0], name=ex.deref(args[1]), value=v)
        yield Some(Ref(Cell(v, "looked_up_cell")))
        yield NONE

    @stub(ex, r"LexicalScope::<.*>::set$|LexicalScope::set$", "LexicalScope::set -> Ok or any Err; logged")
    def scope_set(ex, callee, args, rt):
        e = err_value("from set")
        ex.log("set", env=frame_of(ex, args[0])[0], name=ex.deref(args[1]), value=args[2], error=e)
        yield Ok(Tup([]))
        yield Err(e)

    @stub(ex, r"::read_literal$|::eval_primitive$", "read_literal / eval_primitive -> an opaque result, passed through; logged")
    def literal(ex, callee, args, rt):
        r = Lazy("std::result::Result<values::Value<R>, error::Located<error::ErrorData>>", "literal_result")
        ex.log("literal", what=callee.rsplit("::", 1)[1], datum=name_of(ex, args[0]), result=r)
        yield r

    f = ex.fn_by_suffix("::eval_expression")
    x = Lazy("parser::Expression", "x")
    envcell = Cell(Opaque("Environment", "the_env"), "env_frame")
    envrc = Ref(envcell)
    for rv in ex.run(f, [Ref(Cell(x)), Ref(Cell(envrc))]):
        on_path(rv, list(ex.events), {"x": x, "envcell": envcell})


SHAPES = [(0, False, 0, 0, 1), (0, True, 0, 2, 2), (2, True, 4, 1, 3), (1, False, 1, 2, 1), (3, True, 3, 0, 2)]


def shape_probe_selfcheck(nat):
    """the parametric shape probes on representative shapes: they must pass on a correct tree (guards the probes themselves)"""
    for sh in SHAPES:
        bad, detail = scheme_shape_probe(nat, *sh)
        if bad:
            return True, "shape %s: %s" % (sh, detail)
    return False, "shape probes pass for %s" % (SHAPES,)
