"""Symbolic execution of the real Lexer over a symbolic character stream (shared by C06 and C07)."""
import z3

from ..core import Adt, Lazy, Ref, Cell, SeqObj, IterObj, Opaque, StrVal, Tup, Unsupported
from ..models import Some, NONE
from ..mir import ENUMS


def char_var(ex, name):
    v = z3.Int(name)
    ex.ctx.add(z3.Or(z3.And(v >= 0, v <= 0xD7FF), z3.And(v >= 0xE000, v <= 0x10FFFF)))
    return v


def make_lexer(ex, chars, ln):
    """Lexer::from_char_stream over the given symbolic characters (length ln, python int or z3 Int)"""
    seq = SeqObj("text", "char", [Cell(c) for c in chars], ln, len(chars))
    src = IterObj("seq", seq=seq, pos=0, by_ref=False, mut=False)
    peek = IterObj("peekable", inner=src, peeked=None)
    lexer = Adt("Lexer", None, [NONE, peek, SeqObj("location", "u32", [Cell(z3.IntVal(1)), Cell(z3.IntVal(1))], 2, 2)])
    return Ref(Cell(lexer, "lexer")), src, peek


def consumed(src, peek):
    """number of characters that belong to the tokens produced so far (a peeked character is not consumed yet)"""
    n = src.pos
    if peek.peeked is not None and peek.peeked.variant == "Some":
        n -= 1
    return n


def run_tokens(ex, lexer_ref, src, peek, max_tokens, on_end, acc=None):
    """calls the real Lexer::next up to max_tokens times; on_end(tokens, status) with status 'end' | 'error' | 'cut'"""
    f = ex.resolve("<Lexer<CharIter> as Iterator>::next") or ex.fn_by_suffix("40:67>::next")
    acc = acc or []

    def step(tokens):
        if len(tokens) >= max_tokens:
            on_end(tokens, "cut", None)
            return
        start = consumed(src, peek)
        for rv in ex.run(f, [lexer_ref]):
            if isinstance(rv, Adt) and rv.variant == "None":
                on_end(tokens, "end", None)
            elif isinstance(rv, Adt) and rv.variant == "Some":
                r = rv.fields[0]
                if r.variant == "Ok":
                    tok = r.fields[0]          # Located<TokenData>
                    step(tokens + [(tok, start, consumed(src, peek))])
                else:
                    on_end(tokens, "error", r.fields[0])
            else:
                raise Unsupported("Lexer::next returned %r" % (rv,))
    step(acc)
