"""C17 - running a program file: a SLICE at mechanism level.   (DESIGN.md section 14)
  U1  main(): with a file argument the file is evaluated once; success -> no diagnostic, normal return (status 0);
      failure -> ONE diagnostic on standard error that starts with the file name, carries LINE:COL when the error has a location,
      and the error's message - then exit with a non-zero status; without an argument the REPL is started.
  U2  Interpreter::eval: the forms of the text are evaluated in order, evaluation stops at the first form that fails to parse or
      to evaluate and returns that very error; otherwise the value of the last form.
Outside: what `display` writes to standard output (evaluator + std I/O), the equality with the library interface beyond U2, the
file system (eval_file's read is a stub)."""
import os
import subprocess
import tempfile

import z3

from ..core import Adt, Lazy, Ref, Cell, SeqObj, IterObj, Opaque, StrVal, Tup, Unsupported
from ..harness import hexs
from ..models import Ok, Err, Some, NONE, UNIT
from . import skel
from .c16 import install_fmt, output_of, merge_lits

FILE = "prog.scm"


def cli_probe(chk, at_line=None):
    """native: the real binary on a good file, a failing file and a missing file"""
    exe = chk.ws.repl_binary()
    d = tempfile.mkdtemp(prefix="ruschm-verif-cli-")
    try:
        good = os.path.join(d, "good.scm")
        open(good, "w").write("(import (scheme base))\n(define x 5)\n(+ x 1)\n")
        bad = os.path.join(d, "bad.scm")
        open(bad, "w").write("(import (scheme base))\n(define x 1)\n      (car 5)\n(define never 1)\n")
        p = subprocess.run([exe, good], capture_output=True, timeout=30)
        if p.returncode != 0 or p.stderr or p.stdout:
            return True, "a file whose forms all succeed (and display nothing): exit status %d, stdout %r, stderr %r" % (p.returncode, p.stdout[:80], p.stderr[:80])
        p = subprocess.run([exe, bad], capture_output=True, timeout=30)
        err = p.stderr.decode("utf8", "replace")
        plain = "".join(ch for ch in err if ch == "\n" or ch >= " ")
        import re
        plain = re.sub(r"\x1b\[[0-9;]*m|\[[0-9;]*m", "", plain)
        m = re.search(re.escape(bad) + r":(\d+):(\d+)", plain)
        # the failing form is on line 3, indented by six blanks: LINE = 3, COL beyond the indentation
        if p.returncode == 0 or not m or int(m.group(1)) != 3 or not (6 < int(m.group(2)) <= 13) or plain.count("\n") != 1 or p.stdout:
            return True, "a file whose third form fails: exit status %d, stdout %r, stderr %r" % (p.returncode, p.stdout[:40], err[:160])
        # the failing form on a chosen line (the solver's LINE when replaying; 256 and 512 always: a status is kept modulo 256)
        for n in sorted(set([256, 512] + ([at_line] if isinstance(at_line, int) and 1 < at_line <= 100000 else []))):
            far = os.path.join(d, "line%d.scm" % n)
            open(far, "w").write("(import (scheme base))" + "\n" * (n - 1) + "(car 5)\n")
            p = subprocess.run([exe, far], capture_output=True, timeout=30)
            if p.returncode == 0 or (":%d:" % n).encode() not in p.stderr or p.stdout:
                return True, "a file whose form on line %d fails: exit status %d, stdout %r, stderr %r" % (n, p.returncode, p.stdout[:40], p.stderr[:120])
        p = subprocess.run([exe, os.path.join(d, "missing.scm")], capture_output=True, timeout=30)
        if p.returncode == 0 or not p.stderr:
            return True, "a missing file: exit status %d, stderr %r" % (p.returncode, p.stderr[:80])
        os.mkdir(os.path.join(d, "dir.scm"))
        latin = os.path.join(d, "latin1.scm")
        open(latin, "wb").write(b"(import (scheme base))\n(define caf\xe9 1)\n(car 5)\n")
        # blanks and tabs at the end of a line are text when the line break lies inside a string literal; no final newline; CRLF
        for name, text, want in (("trail.scm", '(import (scheme base) (scheme write))\n(display "ab  \ncd\t\nef")\n(display "x \n")', b"ab  \ncd\t\nefx \n"),
                                 ("crlf.scm", '(import (scheme base) (scheme write))\r\n(display 1)\r\n(display (+ 1 1))\r\n', b"12")):
            fpath = os.path.join(d, name)
            open(fpath, "w", newline="").write(text)
            p = subprocess.run([exe, fpath], capture_output=True, timeout=30)
            if p.returncode != 0 or p.stdout != want:
                return True, "file %s (%r): exit status %d, stdout %r (expected %r), stderr %r" % (name, text, p.returncode, p.stdout[:80], want, p.stderr[:80])
        for unreadable in (os.path.join(d, "dir.scm"), latin):
            p = subprocess.run([exe, unreadable], capture_output=True, timeout=30)
            if p.returncode == 0 or not p.stderr:
                return True, "an unreadable file (%s): exit status %d, stderr %r" % (os.path.basename(unreadable), p.returncode, p.stderr[:80])
        return False, "the real binary: status 0 and no diagnostic on success; one diagnostic FILE:LINE:COL and a non-zero status on the first failing form; a diagnostic and a non-zero status for a missing file"
    finally:
        import shutil
        shutil.rmtree(d, ignore_errors=True)


def spec_main(chk):
    ex = chk.ws.executor_bin(seed=chk.seed)
    chk.executors.append(ex)
    budget = float(os.environ.get("VERIF_BUDGET_S", "900"))
    ex.deadline = chk.t0 + budget
    unit = "main() (argument vector, eval_file, terminal colours and exit stubbed)"
    chk.region_ns = {}
    replay = lambda vals: cli_probe(chk, vals.get("line"))
    err_obj = Lazy("error::ErrorData", "the_error_data")

    def elem_hook(ex_, val, ty):
        if val is err_obj or (isinstance(val, Adt) and val.ty == "Located" and val.fields and val.fields[0] is err_obj):
            return ("lit", "<message>")
        if isinstance(val, Lazy) and val.name.startswith("value_of_the_last_form"):
            return ("lit", "<value>")
        return None

    install_fmt(ex, elem_hook)
    line, col = z3.Int("line"), z3.Int("col")
    ex.ctx.add(line >= 1, line < 2**31, col >= 1, col < 2**31)
    inputs = {"line": line, "col": col}

    @skel.stub(ex, r"^(std::env::)?args$", "env::args -> opaque")
    def args_(ex_, callee, args, rt):
        yield Opaque("Args", "argv")

    @skel.stub(ex, r"^<(std::env::)?Args as Iterator>::nth$", "args().nth(1) -> a file name or nothing")
    def nth(ex_, callee, args, rt):
        ex_.log("arg", present=True)
        yield Some(StrVal(FILE))
        ex_.log("arg", present=False)
        yield NONE

    @skel.stub(ex, r"^(ruschm::)?(repl::)?run$", "repl::run -> logged")
    def repl_run(ex_, callee, args, rt):
        ex_.log("repl")
        yield UNIT

    @skel.stub(ex, r"^<(ruschm::)?(interpreter::)?Interpreter<.*> as Default>::default$", "Interpreter::default -> opaque")
    def it_default(ex_, callee, args, rt):
        yield Opaque("Interpreter", "it")

    @skel.stub(ex, r"^<(std::path::)?PathBuf as From<(std::string::)?String>>::from$", "PathBuf::from(String) -> the path of that name")
    def pathbuf(ex_, callee, args, rt):
        yield Adt("PathBuf", None, [ex_.deref(args[0])])

    @skel.stub(ex, r"Interpreter::<.*>::eval_file$", "eval_file -> Ok(any) | Err(error with or without a location); logged with the path")
    def eval_file(ex_, callee, args, rt):
        p = ex_.deref(args[1])
        ex_.log("eval_file", path=p.fields[0].concrete() if isinstance(p, Adt) and p.fields and isinstance(p.fields[0], StrVal) else None)
        yield Ok(NONE)
        yield Ok(Some(Lazy("values::Value<R>", "value_of_the_last_form")))
        ex_.log("failed", located=True)
        yield Err(Adt("Located", None, [err_obj, Some(SeqObj("loc", "u32", [Cell(line), Cell(col)], 2, 2))]))
        ex_.log("failed", located=False)
        yield Err(Adt("Located", None, [err_obj, NONE]))

    @skel.stub(ex, r"^(std::io::)?_print$|^(std::io::)?_eprint$", "print! / eprint! -> the pieces are output of main itself, on that stream")
    def printing(ex_, callee, args, rt):
        ex_.log("stream", which="stdout" if callee.endswith("_print") else "stderr")
        fa = args[0]
        from .c16 import Pieces
        # reuse the piece machinery: the formatted text counts as output of main
        for _ in ex_.call("Formatter::write_fmt", [Opaque("Formatter", "print"), fa], "Result", 1):
            yield UNIT

    @skel.stub(ex, r"StandardStream::stderr$|StandardStream::stdout$", "termcolor stream -> which one is logged")
    def stream(ex_, callee, args, rt):
        ex_.log("stream", which=callee.rsplit("::", 1)[1])
        yield Opaque("StandardStream", callee.rsplit("::", 1)[1])

    @skel.stub(ex, r"ColorSpec::new$|ColorSpec::set_fg$|as WriteColor>::set_color$|as WriteColor>::reset$", "colours -> ignored")
    def colours(ex_, callee, args, rt):
        if callee.endswith("set_color") or callee.endswith("reset"):
            yield Ok(UNIT)
        else:
            yield Opaque("ColorSpec", "spec") if callee.endswith("new") else args[0]

    @skel.stub(ex, r"^(std::process::)?exit$", "process::exit -> logged, the path ends")
    def exit_(ex_, callee, args, rt):
        ex_.log("exit", code=args[0])
        finish(ex_, None)
        return
        yield

    def finish(ex_, rv):
        chk.path(unit)
        evs = list(ex_.events)
        arg = [e for e in evs if e["kind"] == "arg"][-1]["present"]
        runs = [e for e in evs if e["kind"] == "eval_file"]
        failed = [e for e in evs if e["kind"] == "failed"]
        exits = [e for e in evs if e["kind"] == "exit"]
        streams = [e["which"] for e in evs if e["kind"] == "stream"]
        out = merge_lits(output_of(ex_))
        post = []
        if not arg:
            post.append(z3.BoolVal(bool([e for e in evs if e["kind"] == "repl"]) and not runs and not exits and not out))
            post.append(z3.BoolVal(isinstance(rv, Adt) and rv.variant == "Ok"))
        else:
            post.append(z3.BoolVal(len(runs) == 1 and runs[0]["path"] == FILE and not [e for e in evs if e["kind"] == "repl"]))
            if not failed:
                post.append(z3.BoolVal(not exits and not out and isinstance(rv, Adt) and rv.variant == "Ok"))
            else:
                located = failed[-1]["located"]
                post.append(z3.BoolVal(len(exits) == 1 and rv is None and all(w == "stderr" for w in streams) and bool(streams)))
                if exits:
                    # what the parent process sees is the low 8 bits of the code
                    post.append(exits[0]["code"] % 256 != 0)
                # the diagnostic: FILE [:LINE:COL] ... MESSAGE, one line
                text_ok = bool(out) and out[0][0] == "lit" and out[0][1].startswith(FILE)
                flat = "".join(p[1] if p[0] == "lit" else "\x00" for p in out)
                ints = [p[1] for p in out if p[0] == "int"]
                if located:
                    text_ok = text_ok and flat.startswith(FILE + ":\x00:\x00") and len(ints) == 2 and "<message>" in flat and flat.count("\n") == 1 and flat.endswith("\n")
                    if len(ints) == 2:
                        post.append(z3.And(ints[0] == line, ints[1] == col))
                else:
                    text_ok = text_ok and not ints and "<message>" in flat and flat.count("\n") == 1 and flat.endswith("\n")
                post.append(z3.BoolVal(bool(text_ok)))
        chk.oblige(ex_, unit, "success: no diagnostic and a normal return; failure: one diagnostic FILE[:LINE:COL] MESSAGE on standard error and a non-zero exit status; no argument: the REPL",
                   z3.And(*post), inputs, replay)

    ex.panic_hook = lambda info: chk.oblige(ex, unit, "no-panic", z3.BoolVal(False), inputs, replay)
    f = ex.fns["main"][0]
    for rv in ex.run(f, []):
        finish(ex, rv)


def spec_eval_forms(chk, N):
    ex = chk.executor(True)
    unit = "Interpreter::eval (lexer / parser construction and eval_root_ast stubbed)"
    chk.region_ns = {}
    nat = chk.ws.runner("dev")

    def replay(vals):
        prog = "(define a 1)\n(car a)\n(define b 2)"
        out = [x.strip() for x in nat.cmd("eval %s" % hexs(prog)).split(" ;; ")]
        bad = not (len(out) == 2 and out[0] == "OK -" and out[1].startswith("ERR TypeMisMatch"))
        out2 = [x.strip() for x in nat.cmd("eval %s" % hexs("(define a 1)\n(+ a 1)\n(+ a 2)")).split(" ;; ")]
        bad = bad or out2 != ["OK -", "OK I 2", "OK I 3"]
        return bad, "forms in order, stop at the first failure: %s / %s" % (out, out2)

    def statements(ex_, it_):
        k = len([e for e in ex_.events if e["kind"] == "stmt"])
        yield NONE
        if k < N:
            s_ = Lazy("parser::parser::Statement", "statement%d" % k)
            ex_.log("stmt", stmt=s_)
            yield Some(Ok(s_))
            e = Lazy("error::Located<error::ErrorData>", "parse_error%d" % k)
            ex_.log("stmt", stmt=None)
            ex_.log("parse_err", error=e)
            yield Some(Err(e))

    @skel.stub(ex, r"Lexer::(<.*>::)?from_char_stream$", "lexer construction -> opaque")
    def mk_lexer(ex_, callee, args, rt):
        yield Opaque("Lexer", "lexer")

    @skel.stub(ex, r"Parser::(<.*>::)?from_lexer$", "Parser over the text -> an iterator yielding the end, any statement, or a parse error (at most N statements)")
    def mk_parser(ex_, callee, args, rt):
        yield IterObj("custom", next=statements)

    @skel.stub(ex, r"::eval_root_ast$", "eval_root_ast -> Ok(any value or none) | Err; logged with the statement")
    def era(ex_, callee, args, rt):
        n = len([e for e in ex_.events if e["kind"] == "eval"])
        ex_.log("eval", stmt=ex_.deref(args[1]))
        v = Lazy("std::option::Option<values::Value<R>>", "result%d" % n)
        ex_.log("eval_ok", value=v)
        yield Ok(v)
        e = Lazy("error::Located<error::ErrorData>", "eval_error%d" % n)
        ex_.log("eval_err", error=e)
        yield Err(e)

    it = Lazy("interpreter::Interpreter<R>", "it")
    f = [f for k, lst in ex.fns.items() for f in lst if k.endswith("::eval") and "interpreter.rs" in k and "{closure" not in k]
    if len(f) != 1:
        raise Unsupported("Interpreter::eval not found uniquely: %r" % [x.name for x in f])
    ex.panic_hook = lambda info: chk.oblige(ex, unit, "no-panic", z3.BoolVal(False), {}, replay)
    for rv in ex.run(f[0], [Ref(Cell(it)), Opaque("Chars", "text")]):
        chk.path(unit)
        evs = list(ex.events)
        stmts = [e["stmt"] for e in evs if e["kind"] == "stmt"]
        evals = [e["stmt"] for e in evs if e["kind"] == "eval"]
        perr = [e["error"] for e in evs if e["kind"] == "parse_err"]
        eerr = [e["error"] for e in evs if e["kind"] == "eval_err"]
        oks = [e["value"] for e in evs if e["kind"] == "eval_ok"]
        good_order = len(evals) <= len(stmts) and all(a is b for a, b in zip(evals, [s_ for s_ in stmts if s_ is not None]))
        post = [z3.BoolVal(good_order)]
        is_err = isinstance(rv, Adt) and rv.variant == "Err"
        if perr or eerr:
            first = (perr + eerr)[0] if not (perr and eerr) else None
            post.append(z3.BoolVal(is_err and len(perr) + len(eerr) == 1 and ex.deref(rv.fields[0]) is (perr + eerr)[0]))
        else:
            ok = isinstance(rv, Adt) and rv.variant == "Ok"
            post.append(z3.BoolVal(ok and len(evals) == len(stmts)))
            if ok and oks:
                post.append(z3.BoolVal(ex.deref(rv.fields[0]) is oks[-1]))
            elif ok:
                post.append(z3.BoolVal(isinstance(rv.fields[0], Adt) and rv.fields[0].variant == "None"))
        chk.oblige(ex, unit, "the forms are evaluated in order, each once; the first parse or evaluation error ends the run and is returned; otherwise the value of the last form",
                   z3.And(*post), {}, replay)


def spec_file_stream(chk):
    """file_char_stream: a file that cannot be opened is an error; a read error in the middle of the file never ends the program
    text silently (the caller would evaluate a truncated program and report success)"""
    from ..core import CharStr
    from ..models import iter_next
    ex = chk.executor(True)
    ex.string_mode = "chars"
    ex.loop_bound = 40
    unit = "io::file_char_stream (File::open and the line reader stubbed)"
    chk.region_ns = {}
    replay = lambda vals: cli_probe(chk)

    @skel.stub(ex, r"^(std::fs::)?File::open(::<.*>)?$", "File::open -> Ok(file) or any io error")
    def fopen(ex_, callee, args, rt):
        yield Ok(Opaque("File", "the_file"))
        e = Opaque("std::io::Error", "open_error")
        ex_.log("open_err", error=e)
        yield Err(e)

    @skel.stub(ex, r"BufReader::(<.*>::)?new$", "BufReader::new -> opaque")
    def bufnew(ex_, callee, args, rt):
        yield Opaque("BufReader", "reader")

    def lines_next(ex_, it_):
        k = len([e for e in ex_.events if e["kind"] == "line"])
        yield NONE
        if k < 2:
            ex_.log("line", ok=True)
            # the second character of every line is open: a letter, a blank or a tab (a blank at the end of a line is text)
            c = z3.Int("line%d_last" % k)
            ex_.ctx.add(z3.Or(c == 98, c == 32, c == 9))
            chk.region_ns[str(c)] = c
            yield Some(Ok(CharStr((z3.IntVal(97 + k), c))))
            ex_.log("line", ok=False)
            yield Some(Err(Opaque("std::io::Error", "read_error%d" % k)))

    @skel.stub(ex, r"as (std::io::)?BufRead>::lines$", "BufRead::lines -> at most two lines, each read successfully (two characters) or failing with an io error")
    def lines(ex_, callee, args, rt):
        yield IterObj("custom", next=lines_next)

    f = [f for k, lst in ex.fns.items() for f in lst if k.split("::")[-1] == "file_char_stream" and "{closure" not in k]
    if len(f) != 1:
        raise Unsupported("file_char_stream not found uniquely")
    state = {"panicked": False}

    def on_panic(info):
        # a panic is loud (non-zero status, a message): not a silent truncation. Whether it is acceptable at all is C07's subject.
        chk.path(unit)
        chk.unit(unit)["panic_outcomes"] += 1

    ex.panic_hook = on_panic
    for rv in ex.run(f[0], [Ref(Cell(Opaque("Path", "the_path")))]):
        opened = not [e for e in ex.events if e["kind"] == "open_err"]
        if not opened:
            chk.path(unit)
            chk.oblige(ex, unit, "a file that cannot be opened is reported as an error", z3.BoolVal(isinstance(rv, Adt) and rv.variant == "Err"), {}, replay)
            continue
        if not (isinstance(rv, Adt) and rv.variant == "Ok"):
            chk.path(unit)
            chk.oblige(ex, unit, "an opened file gives a character stream", z3.BoolVal(False), {}, replay)
            continue
        stream = rv.fields[0]

        def drain_all(n, got):
            for o in iter_next(ex, stream):
                if o.variant == "None" or n > 12:
                    chk.path(unit)
                    read_failed = [e for e in ex.events if e["kind"] == "line" and not e["ok"]]
                    chk.oblige(ex, unit, "the character stream ends normally only if every line was read", z3.BoolVal(not read_failed), {}, replay)
                    if not read_failed and o.variant == "None":
                        # the program text is the file's text: every line, character by character, each followed by a line end
                        k = len([e for e in ex.events if e["kind"] == "line" and e["ok"]])
                        want = []
                        for i in range(k):
                            want += [z3.IntVal(97 + i), chk.region_ns["line%d_last" % i], z3.IntVal(10)]
                        same = z3.And(*[g == w for g, w in zip(got, want)]) if len(got) == len(want) else z3.BoolVal(False)
                        chk.oblige(ex, unit, "the character stream is the text of the file: each line unchanged, followed by a line end", same, dict(chk.region_ns), replay)
                else:
                    drain_all(n + 1, got + [o.fields[0]])
        drain_all(0, [])


def run(chk):
    chk.bounds = {"file reading": "a file that opens or not; at most two lines, each read or failing",
                  "main": "file argument present / absent; eval_file succeeds, fails with a located error (every line and column), fails without location", "eval": "texts of 0..3 forms, each parsing or not, each evaluating or not"}
    chk.assumptions += [
        "a mechanism-level SLICE of C17: main()'s control flow and diagnostic, and the order / stop-at-first-error discipline of Interpreter::eval; what the program writes to standard output, reading the file and the evaluator itself are outside",
        "formatting is reduced to piece lists as in C16; the error's own Display is a stub (<message>); termcolor is a stub that records which stream is used",
        "counterexamples are confirmed by running the real binary on a good, a failing and a missing file",
    ]
    chk.run_probes("command line", lambda nat_: cli_probe(chk), chk.ws.runner("dev"), 5)
    chk.step("main", spec_main, chk)
    chk.step("eval forms", spec_eval_forms, chk, 3)
    chk.step("file stream", spec_file_stream, chk)
