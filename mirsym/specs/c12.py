"""C12 - import sets bind exactly the names the import-set algebra yields.   (DESIGN.md section 4, C12)"""
import itertools
import re

import z3

from ..core import Adt, Lazy, Ref, Cell, SeqObj, MapObj, Opaque, StrVal, Tup, Unsupported, NoModel
from ..harness import hexs
from ..models import Ok, Err, Some, NONE
from . import skel
from . import numlib as nl

OPS = ("Only", "Except", "Prefix", "Rename")


def ident(name):
    """a symbolic identifier: one or two lower-case letters (so that every counterexample can be replayed as source text)"""
    s = z3.String(name)
    return s, z3.InRe(s, z3.Loop(z3.Range("a", "z"), 1, 2))


class Term:
    """an import-set term over one library with symbolic identifier lists; builds the AST value and the reference algebra"""

    def __init__(self, ex, shape, libname, tag=""):
        self.shape = shape          # tuple of operator names, outermost first
        self.syms = []
        self.constraints = []
        self.inputs = {}
        node = Adt("Located", None, [Adt("ImportSetBody", "Direct", [Adt("Located", None, [libname, Opaque("location", "l")])]), Opaque("location", "l0")])
        self.levels = []
        for depth, op in enumerate(reversed(shape)):
            pfx = "%s%s%d" % (tag, op[0].lower(), depth)
            if op in ("Only", "Except"):
                ids = []
                for i in range(2):
                    s, c = ident("%s_id%d" % (pfx, i))
                    ids.append(s)
                    self.constraints.append(c)
                    self.inputs["%s_id%d" % (pfx, i)] = s
                seq = SeqObj(pfx + "_ids", "String", [Cell(StrVal(s)) for s in ids], 2, 2)
                body = Adt("ImportSetBody", op, [Ref(Cell(node)), seq])
                self.levels.append((op, ids))
            elif op == "Prefix":
                s = z3.String(pfx + "_prefix")
                self.constraints.append(z3.InRe(s, z3.Loop(z3.Range("a", "z"), 1, 1)))
                self.inputs[pfx + "_prefix"] = s
                body = Adt("ImportSetBody", "Prefix", [Ref(Cell(node)), StrVal(s)])
                self.levels.append((op, s))
            else:
                pairs = []
                for i in range(2):
                    f, c1 = ident("%s_from%d" % (pfx, i))
                    t, c2 = ident("%s_to%d" % (pfx, i))
                    self.constraints += [c1, c2]
                    self.inputs["%s_from%d" % (pfx, i)] = f
                    self.inputs["%s_to%d" % (pfx, i)] = t
                    pairs.append((f, t))
                # admissible rename lists: each identifier is renamed at most once
                self.constraints.append(pairs[0][0] != pairs[1][0])
                seq = SeqObj(pfx + "_renames", "(String, String)", [Cell(Tup([StrVal(f), StrVal(t)])) for f, t in pairs], 2, 2)
                body = Adt("ImportSetBody", "Rename", [Ref(Cell(node)), seq])
                self.levels.append((op, pairs))
            node = Adt("Located", None, [body, Opaque("location", "l%d" % (depth + 1))])
        self.node = node

    def oracle(self, exports):
        """{export: (present z3 Bool, name z3 String)} by the import-set algebra, innermost operator first"""
        st = {e: (z3.BoolVal(True), z3.StringVal(e)) for e in exports}
        for op, arg in self.levels:
            new = {}
            for e, (p, n) in st.items():
                if op == "Only":
                    new[e] = (z3.And(p, z3.Or(*[n == i for i in arg])), n)
                elif op == "Except":
                    new[e] = (z3.And(p, z3.Not(z3.Or(*[n == i for i in arg]))), n)
                elif op == "Prefix":
                    new[e] = (p, z3.Concat(arg, n))
                else:
                    (f0, t0), (f1, t1) = arg
                    new[e] = (p, z3.If(n == f0, t0, z3.If(n == f1, t1, n)))
            st = new
        return st

    def text(self, vals, libtext):
        t = libtext
        for depth, op in enumerate(reversed(self.shape)):
            pfx = [k for k in vals if re.match(r"^\w*%s%d_" % (op[0].lower(), depth), k)]
            get = lambda suffix: next(vals[k] for k in vals if k.endswith("%s%d_%s" % (op[0].lower(), depth, suffix)))
            if op in ("Only", "Except"):
                t = "(%s %s %s %s)" % (op.lower(), t, get("id0"), get("id1"))
            elif op == "Prefix":
                t = "(prefix %s %s)" % (t, get("prefix"))
            else:
                t = "(rename %s (%s %s) (%s %s))" % (t, get("from0"), get("to0"), get("from1"), get("to1"))
        return t


def py_algebra(shape, vals, exports, tag=""):
    st = {e: e for e in exports}
    for depth, op in enumerate(reversed(shape)):
        get = lambda suffix: next(vals[k] for k in vals if k.endswith("%s%s%d_%s" % (tag, op[0].lower(), depth, suffix)))
        if op == "Only":
            ids = {get("id0"), get("id1")}
            st = {e: n for e, n in st.items() if n in ids}
        elif op == "Except":
            ids = {get("id0"), get("id1")}
            st = {e: n for e, n in st.items() if n not in ids}
        elif op == "Prefix":
            st = {e: get("prefix") + n for e, n in st.items()}
        else:
            ren = {get("from0"): get("to0"), get("from1"): get("to1")}
            st = {e: ren.get(n, n) for e, n in st.items()}
    return st


def install_format(ex):
    """format!("{}{}", a, b) = a ++ b : the formatting machinery of the prefix closure, modelled as concatenation"""
    def hook(ex_, callee, args, rt):
        c = callee
        if "new_display" in c:
            return Adt("FmtArg", None, [ex_.deref(args[0])])
        if re.search(r"Arguments::<'_>::new", c):
            return Adt("FmtArgs", None, [args[0], ex_.deref(args[1])])
        if c.endswith("fmt::format") or c == "format":
            fa = args[0]
            if not (isinstance(fa, Adt) and fa.ty == "FmtArgs"):
                return None
            tmpl = fa.fields[0]
            lit = tmpl.tag if isinstance(tmpl, Opaque) else ""
            body = lit[2:-1] if lit.startswith('b"') else None
            tv = ex_.deref(tmpl) if not isinstance(tmpl, Opaque) else None
            if isinstance(tv, SeqObj):
                # the template bytes as a constant byte string: 0xc0 per placeholder, 0x00 terminator
                bs = [z3.simplify(c.v).as_long() for c in tv.items[:tv.ln]]
                body = "".join("\\x%02x" % b for b in bs)
                lit = body
            if body is None or re.fullmatch(r"(\\xc0)+\\x00", body) is None:
                raise Unsupported("format template %r is not a plain sequence of placeholders" % lit)
            parts = []
            seq = fa.fields[1]
            for i in range(seq.ln):
                a = seq.items[i].v
                v = ex_.deref(a.fields[0])
                if not isinstance(v, StrVal):
                    raise Unsupported("formatting a non-string %r" % (v,))
                parts.append(v.t)
            if len(parts) != body.count("\\xc0"):
                raise Unsupported("format arity")
            return StrVal(z3.Concat(*parts) if len(parts) > 1 else parts[0])
        return None
    ex.format_hook = hook
    skel.stub(ex, r"^must_use$|::must_use$", "must_use = identity")(lambda ex_, callee, args, rt: iter([args[0]]))


def make_library(ex, name, exports):
    m = MapObj("exports_" + name)
    vals = {}
    for e in exports:
        v = Lazy("values::Value<R>", "V_%s_%s" % (name, e))
        vals[e] = v
        m.entries.append((StrVal(e), z3.BoolVal(True), Cell(v)))
    return Adt("Library", None, [Opaque("LibraryName", name), m]), vals


LIBTEXT = {"la": ("la", "(define-library (la) (export a b c d) (begin (define a 1) (define b 2) (define c 3) (define d 4)))"),
           "lb": ("lb", "(define-library (lb) (export e f) (begin (define e 5) (define f 6)))")}
VALNUM = {"a": 1, "b": 2, "c": 3, "d": 4, "e": 5, "f": 6}


def lib_text(name, exports):
    return (name, "(define-library (%s) (export %s) (begin %s))" % (name, " ".join(exports), " ".join("(define %s %d)" % (e, VALNUM[e]) for e in exports)))


def native_bindings(nat, import_text, libs=None):
    """{name: value} bound at top level after the import (the libs command lists the names; each is then evaluated)"""
    libs = list(LIBTEXT.values()) if libs is None else libs
    cmd0 = "libs 0 %d %s %s" % (len(libs), " ".join("%s %s" % (hexs(n), hexs(s)) for n, s in libs), hexs("(import %s)" % import_text))
    out = nat.cmd(cmd0).split(" ;;; ")
    res = out[0].strip()
    names = out[1].split() if len(out) > 1 else []
    if not res.startswith("OK"):
        return res, {}
    prog = "(import %s)\n" % import_text + "\n".join(names)
    out2 = nat.cmd("libs 0 %d %s %s" % (len(libs), " ".join("%s %s" % (hexs(n), hexs(s)) for n, s in libs), hexs(prog))).split(" ;;; ")[0].split(" ;; ")
    b = {}
    for n, o in zip(names, out2[1:]):
        t = o.split()
        b[n] = int(t[2]) if len(t) >= 3 and t[1] == "I" else o.strip()
    return res, b


def spec_import_set(chk, shape, exports):
    ex = chk.executor(True)
    ex.map_iter_order = "any"
    install_format(ex)
    nat = chk.ws.runner("dev")
    unit = "Interpreter::eval_import_set %s (library iteration order symbolic)" % ("(" + " ".join(shape) + " <lib>)" if shape else "<lib>")
    chk.region_ns = {}
    libname = Opaque("LibraryName", "la")
    lib, vals = make_library(ex, "la", exports)

    @skel.stub(ex, r"::get_library$", "get_library -> the 4-export library (its HashMap is iterated in a solver-chosen order)")
    def get_library(ex, callee, args, rt):
        yield Ok(lib)

    term = Term(ex, shape, libname)
    ex.ctx.add(*term.constraints)
    orc = term.oracle(exports)
    inputs = dict(term.inputs)

    def replay(vv):
        text = term.text(vv, "(la)")
        res, got = native_bindings(nat, text)
        want_names = py_algebra(shape, vv, ["a", "b", "c", "d"])        # the library registered natively always has four exports
        want = {}
        for e, n in want_names.items():
            want[n] = VALNUM[e]         # (colliding names: last one wins in either semantics; collisions are excluded by the precondition)
        if len(set(want_names.values())) != len(want_names):
            return False, "inadmissible term (two exports end up under one name)"
        bad = (not res.startswith("OK")) or got != want
        return bad, "(import %s) binds %s (import-set algebra: %s)" % (text, got if res.startswith("OK") else res[:40], want)

    it = Lazy("interpreter::Interpreter<R>", "it")
    it.fields[2] = MapObj("imported_library", is_set=True)
    f = ex.fn_by_suffix("::eval_import_set")
    ex.panic_hook = lambda info: chk.oblige(ex, unit, "no-panic", z3.BoolVal(False), inputs, replay)
    # admissible terms: no two exports end up under the same name
    names = [orc[e][1] for e in exports]
    pres = [orc[e][0] for e in exports]
    admissible = z3.And(*[z3.Or(z3.Not(pres[i]), z3.Not(pres[j]), names[i] != names[j]) for i in range(len(exports)) for j in range(i + 1, len(exports))])
    for rv in ex.run(f, [Ref(Cell(it)), Ref(Cell(term.node))]):
        chk.path(unit)
        if not (isinstance(rv, Adt) and rv.variant == "Ok"):
            chk.oblige(ex, unit, "import succeeds", z3.BoolVal(False), inputs, replay)
            continue
        seq = ex.deref(rv.fields[0])
        n = seq.ln if isinstance(seq.ln, int) else None
        if n is None:
            raise Unsupported("symbolic result length")
        items = [seq.items[i].v for i in range(n)]
        byval = {id(v): e for e, v in vals.items()}
        post = []
        seen = {}
        for itv in items:
            nm, v = itv.items
            e = byval.get(id(ex.deref(v)))
            if e is None or e in seen:
                post.append(z3.BoolVal(False))
                continue
            seen[e] = nm
            post.append(z3.And(orc[e][0], ex.deref(nm).t == orc[e][1]))
        for e in exports:
            if e not in seen:
                post.append(z3.Not(orc[e][0]))
        chk.oblige(ex, unit, "the resulting bindings are exactly those of the import-set algebra, each with the value exported under the original name, for every iteration order of the library's table",
                   z3.And(*post), inputs, replay, pre=admissible)


def spec_eval_import(chk, s1=("Only",), l1="la", s2=("Prefix",), l2="lb"):
    """several import sets in one declaration contribute the union, defined in the target environment
    (two import sets of the given operator shapes over the given libraries - the same library twice included)"""
    ex = chk.executor(True)
    ex.map_iter_order = "any"
    install_format(ex)
    nat = chk.ws.runner("dev")
    unit = "Interpreter::eval_import (two import sets %s of %s and %s of %s, union defined in the target environment)" % ("/".join(s1) or "whole", l1, "/".join(s2) or "whole", l2)
    chk.region_ns = {}
    exports = {"la": ["a", "b"], "lb": ["e", "f"]}
    libs = {"la": make_library(ex, "la", exports["la"]), "lb": make_library(ex, "lb", exports["lb"])}

    @skel.stub(ex, r"::get_library$", "get_library -> the named 2-export library (iteration order symbolic)")
    def get_library(ex, callee, args, rt):
        nm = ex.deref(args[1])
        key = nm.fields[0] if isinstance(nm, Adt) else nm
        yield Ok(libs[key.tag][0])

    ex.key_eq_hook = lambda ex_, a, b: z3.BoolVal(getattr(ex_.deref(a), "tag", 1) == getattr(ex_.deref(b), "tag", 2))
    t1 = Term(ex, s1, Opaque("LibraryName", l1), tag="x")
    t2 = Term(ex, s2, Opaque("LibraryName", l2), tag="y")
    ex.ctx.add(*(t1.constraints + t2.constraints))
    o1 = t1.oracle(exports[l1])
    o2 = t2.oracle(exports[l2])
    inputs = dict(t1.inputs)
    inputs.update(t2.inputs)
    decl = Adt("ImportDeclaration", None, [SeqObj("sets", "ImportSet", [Cell(t1.node), Cell(t2.node)], 2, 2)])
    target = MapObj("target_defs")
    envrc = Ref(Cell(Adt("LexicalScope", None, [NONE, target]), "target_frame"))
    it = Lazy("interpreter::Interpreter<R>", "it")
    it.fields[2] = MapObj("imported_library", is_set=True)

    def replay(vv):
        text = "%s %s" % (t1.text(vv, "(%s)" % l1), t2.text(vv, "(%s)" % l2))
        res, got = native_bindings(nat, text, [lib_text(n, exports[n]) for n in ("la", "lb")])
        w1 = py_algebra(s1, vv, exports[l1], "x")
        w2 = py_algebra(s2, vv, exports[l2], "y")
        want = {}
        for e, n in list(w1.items()) + list(w2.items()):
            if n in want and want[n] != VALNUM[e]:
                return False, "inadmissible (two different exports under one name)"
            want[n] = VALNUM[e]
        return (not res.startswith("OK")) or got != want, "(import %s) binds %s (union of the two import sets: %s)" % (text, got, want)

    # every (export value, expected presence, expected name) of the two import sets; one value can be expected under two names
    expected = []
    for e, v in libs[l1][1].items():
        expected.append((id(v), o1[e]))
    for e, v in libs[l2][1].items():
        expected.append((id(v), o2[e]))
    # admissible: two DIFFERENT exports never end up under one name
    admissible = z3.And(*[z3.Or(z3.Not(expected[i][1][0]), z3.Not(expected[j][1][0]), expected[i][1][1] != expected[j][1][1])
                          for i in range(len(expected)) for j in range(i + 1, len(expected)) if expected[i][0] != expected[j][0]])
    f = ex.fn_by_suffix("::eval_import")
    ex.panic_hook = lambda info: chk.oblige(ex, unit, "no-panic", z3.BoolVal(False), inputs, replay)
    for rv in ex.run(f, [Ref(Cell(it)), Ref(Cell(decl)), envrc]):
        chk.path(unit)
        ok = isinstance(rv, Adt) and rv.variant == "Ok"
        post = [z3.BoolVal(ok)]
        for (k, p, cell) in target.entries:
            vid = id(ex.deref(cell.v))
            allowed = [z3.And(o[0], k.t == o[1]) for (i_, o) in expected if i_ == vid]
            post.append(z3.Implies(p, z3.Or(*allowed) if allowed else z3.BoolVal(False)))
        for vid, o in expected:
            hit = [z3.And(p, k.t == o[1]) for (k, p, cell) in target.entries if id(ex.deref(cell.v)) == vid]
            post.append(z3.Implies(o[0], z3.Or(*hit) if hit else z3.BoolVal(False)))
        chk.oblige(ex, unit, "the target environment gains exactly the union of the import sets' bindings", z3.And(*post), inputs, replay, pre=admissible)


PARSE_PROBES = [
    # (import set text, expected bindings) over the library (la) exporting a b c d = 1 2 3 4
    ("(only (la))", {}), ("(only (la) a)", {"a": 1}), ("(only (la) c a)", {"a": 1, "c": 3}),
    ("(except (la))", {"a": 1, "b": 2, "c": 3, "d": 4}), ("(except (la) a)", {"b": 2, "c": 3, "d": 4}), ("(except (la) d a)", {"b": 2, "c": 3}),
    ("(rename (la))", {"a": 1, "b": 2, "c": 3, "d": 4}), ("(rename (la) (a z))", {"z": 1, "b": 2, "c": 3, "d": 4}), ("(rename (la) (a y) (d z))", {"y": 1, "b": 2, "c": 3, "z": 4}),
    ("(prefix (la) p-)", {"p-a": 1, "p-b": 2, "p-c": 3, "p-d": 4}), ("(prefix (only (la)) p-)", {}), ("(only (prefix (la) p-) p-b)", {"p-b": 2}),
]


def parse_probe(nat):
    for text, want in PARSE_PROBES:
        res, got = native_bindings(nat, text)
        if not res.startswith("OK") or got != want:
            return True, "(import %s) binds %s (the import-set algebra gives %s)" % (text, got if res.startswith("OK") else res, want)
    return False, "native probes of parsed import sets (0, 1 and 2 identifiers / rename pairs per operator, nesting) bind what the algebra gives"


def spec_import_set_parsing(chk, NI):
    """Parser::transform_import_set: (only S id ...) (except S id ...) (prefix S p) (rename S (a b) ...) become the import-set term of
    that operator over the parsed S with ALL the identifiers / pairs that follow, in order - also when there are none; any other
    form is a library name (list traversal, identifier conversion and the recursive call are stubs)"""
    from ..core import IterObj
    ex = chk.executor(True)
    nat = chk.ws.runner("dev")
    unit = "Parser::transform_import_set (list traversal, transform_identifier and the nested import set stubbed)"
    chk.region_ns = {}
    replay = lambda vals: parse_probe(nat)
    kw = z3.String("keyword")
    ni = z3.Int("nitems")
    ex.ctx.add(ni >= 0, ni <= NI)
    form = Lazy("parser::datum::Datum", "form")
    head = Adt("Located", None, [Adt("DatumBody", "Symbol", [StrVal(kw)]), Opaque("location", "head_loc")])
    sub = Lazy("parser::datum::Datum", "inner_set_form")
    rest = [Lazy("parser::datum::Datum", "item%d" % i) for i in range(NI)]
    items = SeqObj("form_items", "parser::datum::Datum", [Cell(head), Cell(sub)] + [Cell(r) for r in rest], 2 + ni, 2 + NI)
    inner_result = Lazy("error::Located<parser::parser::ImportSetBody>", "parsed_inner_set")

    @skel.stub(ex, r"::expect_list$", "Datum::expect_list -> the form's list (opaque)")
    def expect_list(ex_, callee, args, rt):
        yield Ok(Opaque("DatumList", "list_of_form"))

    @skel.stub(ex, r"^<(parser::pair::)?GenericPair<.*> as IntoIterator>::into_iter$|GenericPair(::)?(<.*>)?::into_iter$", "list traversal -> the form's items in order")
    def into_iter(ex_, callee, args, rt):
        yield IterObj("seq", seq=items, pos=0, by_ref=False, mut=False)

    @skel.stub(ex, r"::transform_identifier$", "transform_identifier -> the head's keyword / a distinct name per item")
    def tid(ex_, callee, args, rt):
        d = ex_.deref(args[0])
        if d is head or (isinstance(d, Adt) and d.ty == "Located" and d.fields[0] is head.fields[0]):
            yield Ok(StrVal(kw))
            return
        for i, r in enumerate(rest):
            if d is r:
                ex_.log("ident", index=i)
                yield Ok(StrVal("id%d" % i))
                return
        raise Unsupported("transform_identifier of %r" % (d,))

    @skel.stub(ex, r"::transform_identifier_pair$", "transform_identifier_pair -> a distinct pair per item")
    def tpair(ex_, callee, args, rt):
        d = ex_.deref(args[0])
        for i, r in enumerate(rest):
            if d is r:
                ex_.log("pair", index=i)
                yield Ok(Tup([StrVal("from%d" % i), StrVal("to%d" % i)]))
                return
        raise Unsupported("transform_identifier_pair of %r" % (d,))

    @skel.stub(ex, r"::transform_import_set$", "the nested import set -> parsed (stub), logged with the form it is given")
    def nested(ex_, callee, args, rt):
        ex_.log("nested", form=ex_.deref(args[0]))
        yield Ok(inner_result)

    @skel.stub(ex, r"::transform_library_name$", "transform_library_name -> a library name (stub)")
    def tlib(ex_, callee, args, rt):
        ex_.log("library_name")
        yield Ok(Opaque("LibraryName", "the_library_name"))

    f = ex.fn_by_suffix("::transform_import_set")
    ex.panic_hook = lambda info: chk.oblige(ex, unit, "no-panic", z3.BoolVal(False), {"nitems": ni}, replay)
    KW = {"only": "Only", "except": "Except", "prefix": "Prefix", "rename": "Rename"}
    for rv in ex.run(f, [form]):
        chk.path(unit)
        for n in skel.each_value(ex, ni, range(NI + 1)):
            ok = isinstance(rv, Adt) and rv.variant == "Ok"
            res_ = ex.deref(rv.fields[0]) if ok else None
            body = res_.fields[0] if isinstance(res_, Adt) and res_.ty == "Located" else None        # the nested set itself is no operator term
            nest = [e for e in ex.events if e["kind"] == "nested"]
            post = []
            for word, variant in KW.items():
                is_kw = kw == z3.StringVal(word)
                good = ok and isinstance(body, Adt) and body.variant == variant and len(nest) == 1 and nest[0]["form"] is sub and ex.deref(body.fields[0]) is inner_result
                if good and variant in ("Only", "Except", "Rename"):
                    seq = ex.deref(body.fields[1])
                    good = isinstance(seq, SeqObj) and skel.seq_len_term(seq) is not None
                    if good:
                        ln = z3.simplify(skel.seq_len_term(seq)) if not isinstance(seq.ln, int) else z3.IntVal(seq.ln)
                        good = z3.is_int_value(ln) and ln.as_long() == n
                        if good:
                            for i in range(n):
                                it = ex.deref(seq.items[i].v)
                                want = ("id%d" % i) if variant != "Rename" else None
                                if variant == "Rename":
                                    good = good and isinstance(it, Tup) and it.items[0].concrete() == "from%d" % i and it.items[1].concrete() == "to%d" % i
                                else:
                                    good = good and isinstance(it, StrVal) and it.concrete() == want
                elif good and variant == "Prefix":
                    pv = ex.deref(body.fields[1])
                    good = n >= 1 and isinstance(pv, StrVal) and pv.concrete() == "id0"
                if variant == "Prefix" and n == 0:
                    post.append(z3.Implies(is_kw, z3.BoolVal(not ok)))       # (prefix S) without a prefix is malformed
                else:
                    post.append(z3.Implies(is_kw, z3.BoolVal(bool(good))))
            other = z3.And(*[kw != z3.StringVal(w) for w in KW])
            post.append(z3.Implies(other, z3.BoolVal(bool(ok and isinstance(body, Adt) and body.variant == "Direct" and not nest))))
            chk.oblige(ex, unit, "the operator's term over the nested set with all following identifiers / pairs, in order (none included); other forms are library names",
                       z3.And(*post), {"nitems": ni}, replay)


def run(chk):
    thorough = chk.tier == "thorough"
    exports = ["a", "b", "c", "d"] if thorough else ["a", "b", "c"]
    shapes = [()] + [(o,) for o in OPS] + [(o1, o2) for o1 in OPS for o2 in OPS]
    chk.bounds = {"import-set terms": "nesting depth <= 2 over only/except/prefix/rename (all 21 operator shapes; in the quick tier the four shapes with a rename innermost or twice run over a library of 2 exports), identifier lists and rename lists of 2 symbolic identifiers ([a-z]{1,2}), symbolic one-letter prefix",
                  "library": "%d exports; the iteration order of its hash table is a solver choice (every permutation)" % len(exports),
                  "declaration": "two import sets merged into one environment: only / prefix of two libraries, and whole + only-of-prefix, except-of-rename + whole, prefix + rename of ONE library"}
    chk.assumptions += [
        "admissible terms only: no two exports end up under one name, a rename list renames an identifier at most once (otherwise the result depends on hash order by construction)",
        "identifiers that do not occur in the set are ignored by only/except/rename (the implementation's and the oracle's reading; R7RS calls it an error)",
        "get_library is a stub returning a fixed library; std HashMap/HashSet modelled; format!(\"{}{}\") modelled as concatenation after checking the template bytes",
        "parsing of import sets: Parser::transform_import_set is checked at mechanism level (list traversal stubbed); the reader below it is C06's subject",
    ]
    if not thorough:
        chk.step_budget_s = 90.0       # 25 units of a few seconds each: one that explodes must not starve the others
    slow = {("Only", "Rename"), ("Except", "Rename"), ("Rename", "Rename"), ("Rename", "Except")}
    for sh in shapes:
        if sh in slow and not thorough:
            chk.notes.append("shape %s: library of 2 exports in the quick tier" % (sh,))
            chk.step("import set %s" % (sh,), spec_import_set, chk, sh, exports[:2])
            continue
        chk.step("import set %s" % (sh,), spec_import_set, chk, sh, exports)
    chk.run_probes("parsed import sets", parse_probe, chk.ws.runner("dev"), len(PARSE_PROBES))
    chk.step("import set parsing", spec_import_set_parsing, chk, 2)
    chk.step("eval_import union", spec_eval_import, chk)
    # the same library twice: as a whole next to a restricted, renamed view of it (either order)
    chk.step("eval_import union whole+only/prefix", spec_eval_import, chk, (), "la", ("Only", "Prefix"), "la")
    chk.step("eval_import union except/rename+whole", spec_eval_import, chk, ("Except", "Rename"), "la", (), "la")
    if thorough:
        chk.step("eval_import union prefix+rename", spec_eval_import, chk, ("Prefix",), "la", ("Rename",), "la")
