"""C06, second half: parentheses, dotted tails and the quote abbreviation build exactly the structure they denote.
The real Parser::current_datum / current_list_or_pair / parse_quoted / datum run on EVERY token sequence of bounded length over the
kinds ( ) . ' identifier integer (the token iterator is a stub that offers every kind at every position); the result is compared
with a reference reader written from R7RS section 7.1.2 (<datum>, <list>, <abbreviation>)."""
import z3

from ..core import Adt, Lazy, Ref, Cell, SeqObj, IterObj, Opaque, StrVal, Tup, Unsupported
from ..harness import hexs
from ..models import Ok, Err, Some, NONE
from . import skel

KINDS = ["LeftParen", "RightParen", "Period", "Quote", "Identifier", "Primitive"]
TEXT = {"LeftParen": "(", "RightParen": ")", "Period": ".", "Quote": "'"}


# ------------------------------------------------------------------------------------------------ reference reader
class Malformed(Exception):
    pass


def ref_datum(toks, i):
    """(datum, next index) for the datum starting at token i; datum = ('sym', n) | ('int', n) | ('list', [items], tail-or-None)"""
    if i >= len(toks):
        raise Malformed("end of input")
    k = toks[i]
    if k[0] == "Identifier":
        return ("sym", k[1]), i + 1
    if k[0] == "Primitive":
        return ("int", k[1]), i + 1
    if k[0] == "Quote":
        d, j = ref_datum(toks, i + 1)
        return ("list", [("sym", "quote"), d], None), j
    if k[0] == "LeftParen":
        items = []
        j = i + 1
        while True:
            if j >= len(toks):
                raise Malformed("end of input in a list")
            if toks[j][0] == "RightParen":
                return ("list", items, None), j + 1
            if toks[j][0] == "Period":
                if not items:
                    raise Malformed("a dot needs a datum before it")
                d, j2 = ref_datum(toks, j + 1)
                if j2 >= len(toks) or toks[j2][0] != "RightParen":
                    raise Malformed("exactly one datum after the dot")
                return ("list", items, d), j2 + 1
            d, j = ref_datum(toks, j)
            items.append(d)
    raise Malformed("a datum cannot start with %s" % k[0])


def ref_status(toks):
    """('complete', datum) | ('incomplete', None) - some continuation is a datum | ('invalid', None) - no continuation is"""
    try:
        d, j = ref_datum(toks, 0)
        return "complete", normal(d)
    except Malformed as e:
        return ("incomplete" if "end of input" in str(e) else "invalid"), None


def completion(toks):
    """a continuation that makes an incomplete prefix a datum (for native replays)"""
    import itertools
    pool = [("Identifier", "z"), ("RightParen",)]
    for n in range(1, 7):
        for suffix in itertools.product(pool, repeat=n):
            st, d = ref_status(list(toks) + list(suffix))
            if st == "complete":
                return list(toks) + list(suffix), d
    return None, None


def normal(d):
    """(a . (b c)) = (a b c): fold list tails that are lists"""
    if d[0] != "list":
        return d
    items = [normal(x) for x in d[1]]
    tail = normal(d[2]) if d[2] is not None else None
    if tail is not None and tail[0] == "list":
        items = items + tail[1]
        tail = tail[2]
    return ("list", items, tail)


def text_of(toks):
    out = []
    for k in toks:
        out.append(TEXT.get(k[0]) or (k[1] if k[0] == "Identifier" else str(k[1])))
    return " ".join(out)


def show(d):
    if d[0] == "sym":
        return "Y " + d[1].encode().hex()
    if d[0] == "int":
        return "I %d" % d[1]
    items = " ".join(show(x) for x in d[1])
    if d[2] is None:
        return ("L %d %s" % (len(d[1]), items)).strip()
    return "D %d %s %s" % (len(d[1]), items, show(d[2]))


# ------------------------------------------------------------------------------------------------ decoding the symbolic result
def decode(ex, d):
    d = ex.deref(d)
    if not (isinstance(d, Adt) and d.ty == "Located"):
        raise Unsupported("datum %r" % (d,))
    b = d.fields[0]
    if b.variant == "Symbol":
        return ("sym", b.fields[0].concrete())
    if b.variant == "Primitive":
        p = b.fields[0]
        return ("int", z3.simplify(p.fields[0]).as_long())
    if b.variant == "Pair":
        items = []
        cur = ex.deref(b.fields[0])
        while True:
            if cur.variant == "Empty":
                return ("list", items, None)
            items.append(decode(ex, cur.fields[0]))
            cdr = ex.deref(cur.fields[1])
            cb = cdr.fields[0]
            if cb.variant == "Pair":
                cur = ex.deref(cb.fields[0])
            else:
                return ("list", items, decode(ex, cdr))
    raise Unsupported("datum body %s" % b.variant)


def spec_reader(chk, N):
    ex = chk.executor(True)
    ex.loop_bound = 4 * N + 8
    nat = chk.ws.runner("dev")
    unit = "Parser::current_datum on every sequence of <= %d tokens over ( ) . ' identifier integer" % N
    chk.region_ns = {}

    def next_token(ex_, it_):
        k = len([e for e in ex_.events if e["kind"] == "tok"])
        if k >= N:
            ex_.log("tok", what=None)
            yield NONE
            return
        for i in ex_.branches([True] * (len(KINDS) + 1)):
            if i == len(KINDS):
                ex_.log("tok", what=None)
                yield NONE
                continue
            kind = KINDS[i]
            if kind == "Identifier":
                data = Adt("TokenData", "Identifier", [StrVal("x%d" % k)])
                ex_.log("tok", what=("Identifier", "x%d" % k))
            elif kind == "Primitive":
                data = Adt("TokenData", "Primitive", [Adt("Primitive", "Integer", [z3.IntVal(k + 1)])])
                ex_.log("tok", what=("Primitive", k + 1))
            else:
                data = Adt("TokenData", kind, [])
                ex_.log("tok", what=(kind,))
            loc = Some(SeqObj("loc%d" % k, "u32", [Cell(z3.IntVal(1)), Cell(z3.IntVal(k + 1))], 2, 2))
            yield Some(Ok(Adt("Located", None, [data, loc])))

    def realised(events):
        toks = []
        for e in events:
            if e["kind"] == "tok":
                if e["what"] is None:
                    break
                toks.append(e["what"])
        return toks

    def replay(vals):
        return (False, "structural counterexample: see the token sequence in the description")

    fadv = ex.fn_by_suffix("::advance") if False else None
    lexer = IterObj("peekable", inner=IterObj("custom", next=next_token), peeked=None)
    parser = Adt("Parser", None, [NONE, lexer, Opaque("syntax_env", "env"), NONE])
    pref = Ref(Cell(parser, "parser"))
    f_adv = [f for k, lst in ex.fns.items() for f in lst if k.endswith("::advance") and "parser.rs" in k and "{closure" not in k]
    f_cur = [f for k, lst in ex.fns.items() for f in lst if k.endswith("::current_datum") and "{closure" not in k]
    if len(f_adv) != 1 or len(f_cur) != 1:
        raise Unsupported("Parser::advance / current_datum not found uniquely: %r %r" % ([f.name for f in f_adv], [f.name for f in f_cur]))

    def native(toks):
        text = "'" + text_of(toks)
        return text, nat.cmd("eval %s" % hexs(text)).split(" ;; ")[0].strip()

    def make_replay(toks, want):
        def rp(vals):
            text, out = native(toks)
            if want is None:
                return out.startswith("OK"), "the reader accepts %r (%s), which is not a datum" % (text, out[:50])
            return out != "OK " + show(want), "reading %r gives %s, the text denotes %s" % (text, out[:60], show(want))
        return rp

    ex.panic_hook = lambda info: chk.oblige(ex, unit, "no-panic", z3.BoolVal(False), {}, make_replay(realised(ex.events), None))
    for r0 in ex.run(f_adv[0], [pref, z3.IntVal(1)]):
        if not (isinstance(r0, Adt) and r0.variant == "Ok"):
            continue
        for rv in ex.run(f_cur[0], [pref]):
            chk.path(unit)
            toks = realised(ex.events)
            ended = any(e["kind"] == "tok" and e["what"] is None for e in ex.events)
            status, want = ref_status(toks)
            if not toks:
                # nothing to read: Ok(None)
                good = isinstance(rv, Adt) and rv.variant == "Ok" and isinstance(rv.fields[0], Adt) and rv.fields[0].variant == "None"
                chk.oblige(ex, unit, "no token, no datum", z3.BoolVal(bool(good)), {}, make_replay(toks, None), witness=False)
                continue
            is_ok = isinstance(rv, Adt) and rv.variant == "Ok"
            if status == "invalid" or (status == "incomplete" and ended):
                chk.oblige(ex, unit, "a token sequence that is not a datum is rejected", z3.BoolVal(not is_ok), {}, make_replay(toks, None), witness=False)
                continue
            if status == "incomplete":
                # the reader gave its verdict before the text ended: it must not have rejected a text that can still become a datum
                full, d = completion(toks)
                chk.oblige(ex, unit, "a token sequence that can be continued to a datum is not rejected early", z3.BoolVal(False), {},
                           make_replay(full, d) if full else make_replay(toks, None), witness=False)
                continue
            got = None
            if __import__("os").environ.get("VERIF_DEBUG_POST") and len(toks) >= 2 and toks[0][0] == "Quote" and toks[1][0] == "Quote":
                print("   qq", text_of(toks), "is_ok", is_ok, repr(rv)[:200])
            if is_ok and isinstance(rv.fields[0], Adt) and rv.fields[0].variant == "Some":
                try:
                    got = normal(decode(ex, rv.fields[0].fields[0]))
                except Exception as e_:
                    if __import__("os").environ.get("VERIF_DEBUG_POST"):
                        import traceback
                        traceback.print_exc()
                    got = None
            if got != want and __import__("os").environ.get("VERIF_DEBUG_POST"):
                print("   tokens", toks, "got", got, "want", want, "rv", repr(rv)[:300])
            chk.oblige(ex, unit, "the datum read is the structure the tokens denote (lists, dotted tails, quote abbreviation)", z3.BoolVal(got == want), {},
                       make_replay(toks, want), witness=False)
