"""C16 - printed values read back as the same values: a SLICE.   (DESIGN.md section 13)

What is decided here, by symbolic execution of the real Display impls (values.rs, pair.rs) with core::fmt reduced to
"append these pieces", and of the real Lexer + Interpreter::eval_primitive on the printed text:
  U1  exact numbers: for every Integer(i32) and every Rational(i32, non-zero i32) the printed text is one numeric token that
      converts back to an exact number of the same value;
  U2  booleans and characters: "#t" / "#f" / "#\\c" read back as the same boolean / character, for every character;
  U3  lists: a list of <= 3 elements (proper, improper, nested one level) prints as "(" elements separated by single spaces,
      " . tail" exactly when improper, ")" - with every element printed once, in order (element printing stubbed);
  U4  vectors: "#(" elements separated by single spaces ")".
Outside: reals (shortest-float printing is std's), symbols and strings, reading list / vector text back (the parser)."""
import z3

from ..core import Adt, Lazy, Ref, Cell, SeqObj, IterObj, Opaque, StrVal, CharStr, Tup, Unsupported, NoModel, tset
from ..harness import hexs
from ..models import Ok, Err, Some, NONE, UNIT, iter_next, make_iter, drain
from ..mir import ENUMS, base_ty, generic_args
from . import skel, lexskel
from . import numlib as nl
from .numlib import NumIn


class Pieces:
    """a string under construction: a tuple of pieces ('lit', text) | ('int', term) | ('char', term) | ('elem', object)"""

    def __init__(self, pieces=()):
        self.pieces = tuple(pieces)

    def __repr__(self):
        return "<pieces %r>" % (self.pieces,)


def install_fmt(ex, elem_hook=None):
    """core::fmt reduced to piece lists. Output written through a Formatter is logged as 'out' events at the current nesting
    level (format!() opens a new level and returns its pieces as a string value)."""
    ex.fmt_level = 0

    def out(piece):
        ex.log("out", piece=piece, level=ex.fmt_level)

    def peel(ty):
        ty = ty.strip()
        while ty.startswith("&"):
            ty = ty[1:].strip()
            if ty.startswith("mut "):
                ty = ty[4:]
        return ty

    @skel.stub(ex, r"Argument::(<'_>::)?new_(display|debug)(::<.*>)?$", "fmt::Argument::new_display / new_debug -> (value, kind, type)")
    def new_arg(ex_, callee, args, rt):
        import re
        m = re.search(r"new_(display|debug)::<(.*)>$", callee, re.S)
        yield Adt("FmtArg", None, [args[0], m.group(1) if m else "display", m.group(2) if m else "?"])

    @skel.stub(ex, r"Arguments::(<'_>::)?(new|new_const|new_v1)(::<.*>)?$|Arguments::(<'_>::)?from_str(::<.*>)?$", "fmt::Arguments::new -> (template, arguments)")
    def new_args(ex_, callee, args, rt):
        yield Adt("FmtArgs", None, [args[0], args[1] if len(args) > 1 else None])

    def template_items(tmpl):
        """decode the format template: a sequence of ('lit', text) and ('arg',) items"""
        tv = ex.deref(tmpl)
        if isinstance(tv, StrVal) and tv.concrete() is not None:
            return [("lit", tv.concrete())]          # Arguments::from_str / new_const: a plain string
        if not isinstance(tv, SeqObj):
            raise Unsupported("format template %r" % (tv,))
        bs = [z3.simplify(c.v).as_long() for c in tv.items[:tv.ln]]
        items = []
        i = 0
        while i < len(bs):
            b = bs[i]
            if b == 0:
                break
            if b == 0xC0:
                items.append(("arg",))
                i += 1
            elif b < 0x80:
                items.append(("lit", bytes(bs[i + 1:i + 1 + b]).decode("utf8")))
                i += 1 + b
            else:
                raise Unsupported("format template byte %#x (formatting options are not modelled)" % b)
        return items

    def emit_value(ex_, v, kind, ty, f):
        """generator: append the printed form of v (declared type ty) to the current output"""
        ty = peel(ty)
        val = ex_.deref(v)
        if elem_hook is not None:
            r = elem_hook(ex_, val, ty)
            if r is not None:
                out(r)
                yield UNIT
                return
        if isinstance(val, Pieces):
            for p in val.pieces:
                out(p)
            yield UNIT
            return
        import re as _re
        if _re.match(r"^[A-Z]$", ty):
            # an uninstantiated type parameter of a generic Display impl: the value tells its type
            if isinstance(val, Lazy):
                ty = val.ty
            elif isinstance(val, Adt) and val.ty == "Value":
                ty = "values::Value<R>"
            elif isinstance(val, Adt) and val.ty == "Number":
                ty = "values::Number<R>"
        if ty in ("i32", "u32", "usize", "i64", "u64", "isize", "u8"):
            out(("int", val))
            yield UNIT
            return
        if ty == "char":
            out(("char", val))
            yield UNIT
            return
        if ty in ("R", "f32", "f64"):
            out(("real", val))
            yield UNIT
            return
        if base_ty(ty) in ("String", "str"):
            if isinstance(val, StrVal) and val.concrete() is not None:
                out(("lit", val.concrete()))
            elif isinstance(val, CharStr):
                for c in val.chars:
                    out(("char", c))
            else:
                out(("str", val))
            yield UNIT
            return
        if base_ty(ty) in ("Box", "Rc", "Ref", "RefMut", "Arc") and generic_args(ty):
            # smart pointers print what they point to
            yield from emit_value(ex_, val, kind, generic_args(ty)[0], f)
            return
        fn = ex_.resolve("<%s as %s>::fmt" % (ty, "Display" if kind == "display" else "Debug"))
        if fn is None:
            raise Unsupported("printing a %s (%s)" % (ty, kind))
        ex_.pending_generics = None
        for r in ex_.call("<%s as %s>::fmt" % (ty, "Display" if kind == "display" else "Debug"), [Ref(Cell(val)) if not isinstance(v, Ref) else peel_ref(ex_, v), f], "Result<(), fmt::Error>", 1):
            yield r

    def peel_ref(ex_, v):
        # &&T -> &T
        while isinstance(v, Ref) and isinstance(ex_.load(v), Ref):
            v = ex_.load(v)
        return v

    def emit_all(ex_, fa, f):
        items = template_items(fa.fields[0])
        argseq = ex_.deref(fa.fields[1]) if fa.fields[1] is not None else None

        def go(i, k):
            if i == len(items):
                yield UNIT
                return
            it = items[i]
            if it[0] == "lit":
                out(("lit", it[1]))
                yield from go(i + 1, k)
            else:
                a = argseq.items[k].v
                for _ in emit_value(ex_, a.fields[0], a.fields[1], a.fields[2], f):
                    yield from go(i + 1, k + 1)
        yield from go(0, 0)

    @skel.stub(ex, r"Formatter::(<'_>::)?write_fmt$|<.* as (std::fmt::|core::fmt::|std::io::)?Write>::write_fmt$", "Formatter::write_fmt -> the pieces are appended to the output")
    def write_fmt(ex_, callee, args, rt):
        for _ in emit_all(ex_, args[1], args[0]):
            yield Ok(UNIT)

    @skel.stub(ex, r"Formatter::(<'_>::)?write_str$", "Formatter::write_str -> literal piece")
    def write_str(ex_, callee, args, rt):
        s = ex_.deref(args[1])
        out(("lit", s.concrete()) if isinstance(s, StrVal) and s.concrete() is not None else ("str", s))
        yield Ok(UNIT)

    @skel.stub(ex, r"^(alloc|std)::fmt::format$|^format$|^format_inner$", "format!() -> the pieces as a string value")
    def fmt_format(ex_, callee, args, rt):
        lvl = ex_.fmt_level
        tset(ex_, "fmt_level", lvl + 1)
        start = len(ex_.events)
        for _ in emit_all(ex_, args[0], Opaque("Formatter", "nested")):
            ps = [e["piece"] for e in ex_.events[start:] if e["kind"] == "out" and e["level"] == lvl + 1]
            tset(ex_, "fmt_level", lvl)
            yield Pieces(ps)
            tset(ex_, "fmt_level", lvl + 1)
        tset(ex_, "fmt_level", lvl)

    @skel.stub(ex, r"as (itertools::)?Itertools>::join$|^(itertools::)?join(::<.*>)?$", "itertools join -> the items' pieces with the separator between them")
    def join(ex_, callee, args, rt):
        it = make_iter(ex_, args[0], False)
        sep = ex_.deref(args[1])
        sep_text = sep.concrete() if isinstance(sep, StrVal) else None
        if sep_text is None:
            raise Unsupported("join separator %r" % (sep,))
        for items in drain(ex_, it):
            ps = []
            for n, x in enumerate(items):
                x = ex_.deref(x)
                if n:
                    ps.append(("lit", sep_text))
                if isinstance(x, Pieces):
                    ps.extend(x.pieces)
                else:
                    raise Unsupported("join of %r" % (x,))
            yield Pieces(ps)

    return out


def output_of(ex, start=0):
    return [e["piece"] for e in ex.events[start:] if e["kind"] == "out" and e["level"] == 0]


def merge_lits(pieces):
    outp = []
    for p in pieces:
        if p[0] == "lit" and outp and outp[-1][0] == "lit":
            outp[-1] = ("lit", outp[-1][1] + p[1])
        elif p[0] == "lit" and p[1] == "":
            continue
        else:
            outp.append(p)
    return outp


# ------------------------------------------------------------------------------------------------ rendering integers as text
def render(ex, pieces, maxdigits):
    """generator over texts (lists of z3 char terms) the pieces denote: a literal is its characters, a character piece is that
    character, an integer piece is its canonical decimal form (std's Display for i32: optional '-', no leading zeros) -
    one fork per digit count and sign"""
    def go(i, acc):
        if i == len(pieces):
            yield acc
            return
        p = pieces[i]
        if p[0] == "lit":
            yield from go(i + 1, acc + [z3.IntVal(ord(ch)) for ch in p[1]])
        elif p[0] == "char":
            yield from go(i + 1, acc + [p[1]])
        elif p[0] == "int":
            n = p[1]
            for neg in ex.branches([n < 0, n >= 0]):
                mag = -n if neg == 0 else n
                for k in ex.branches([z3.And(mag >= (10 ** (kk - 1) if kk > 1 else 0), mag < 10 ** kk) for kk in range(1, maxdigits + 1)]):
                    kk = k + 1
                    ds = [z3.Int(ex.fresh_name("digit")) for _ in range(kk)]
                    for d in ds:
                        ex.ctx.add(d >= 0, d <= 9)
                    ex.ctx.add(mag == z3.Sum([d * 10 ** (kk - 1 - j) for j, d in enumerate(ds)]) if kk > 1 else mag == ds[0])
                    txt = ([z3.IntVal(45)] if neg == 0 else []) + [d + 48 for d in ds]
                    yield from go(i + 1, acc + txt)
        else:
            raise Unsupported("cannot render piece %r as text" % (p,))
    yield from go(0, [])


def read_back(ex, chars, on_value):
    """the real Lexer on the text, then Interpreter::eval_primitive on its single token"""
    lx, src, peek = lexskel.make_lexer(ex, chars, len(chars))
    fprim = ex.fn_by_suffix("::eval_primitive")

    def on_end(tokens, status, err):
        if status != "end" or len(tokens) != 1:
            on_value(None, "reading ends with %s after %d tokens" % (status, len(tokens)))
            return
        td = tokens[0][0].fields[0]
        if not (isinstance(td, Adt) and td.variant == "Primitive"):
            on_value(None, "token %r" % (td,))
            return
        for rv in ex.run(fprim, [Ref(Cell(td.fields[0]))]):
            if isinstance(rv, Adt) and rv.variant == "Ok":
                on_value(rv.fields[0], "")
            else:
                on_value(None, "conversion error")
    lexskel.run_tokens(ex, lx, src, peek, 3, on_end)


# ------------------------------------------------------------------------------------------------ U1: exact numbers
def native_roundtrip(nat, tok):
    out = nat.cmd("roundtrip " + tok)
    t = out.split(" ;; ")
    text = bytes.fromhex(t[0].split()[2]).decode("utf8", "replace") if len(t[0].split()) > 2 else ""
    return text, (t[1].strip() if len(t) > 1 else out)


def spec_numbers(chk, maxdigits):
    ex = chk.executor(True)
    ex.string_mode = "chars"
    ex.loop_bound = 24
    nat = chk.ws.runner("dev")
    unit = "Display for Number (exact) -> Lexer -> eval_primitive"
    install_fmt(ex)
    x = NumIn(ex, "x", allow=("Integer", "Rational"))
    bound = 10 ** maxdigits
    ex.ctx.add(x.valid())
    if maxdigits < 10:
        ex.ctx.add(x.i > -bound, x.i < bound, x.a > -bound, x.a < bound, x.b > -bound, x.b < bound)
    inputs = dict(x.inputs("x"))
    chk.region_ns = dict(x.region_ns("x"))
    f = ex.resolve("<values::Number<R> as Display>::fmt")

    def replay(vals):
        cx = nl.num_from_model(vals, "x")
        text, res = native_roundtrip(nat, nl.tok_number(cx))
        t = res.split()
        good = False
        if t[:1] == ["OK"]:
            got = nl.parse_native_number(t[1:])
            good = got is not None and got[0] != "F" and nl.py_value(got) == nl.py_value(cx)
        return (not good), "(display %s) prints %r, which reads back as %s" % (nl.tok_number(cx), text, res[:60])

    ex.panic_hook = lambda info: chk.oblige(ex, unit, "no-panic", z3.BoolVal(False), inputs, replay)
    fobj = Ref(Cell(Opaque("Formatter", "f")))
    for rv in ex.run(f, [Ref(Cell(x.obj)), fobj]):
        pieces = merge_lits(output_of(ex))
        for chars in render(ex, pieces, maxdigits):
            def on_value(v, why):
                chk.path(unit)
                if v is None or not (isinstance(v, Adt) and v.variant == "Number"):
                    chk.oblige(ex, unit, "the printed text is one numeric token that converts back", z3.BoolVal(False), inputs, replay)
                    return
                kind, rn, rd, rr = nl.result_number(ex, v.fields[0])
                if kind == "Real":
                    chk.oblige(ex, unit, "an exact number reads back as an exact number", z3.BoolVal(False), inputs, replay)
                    return
                chk.oblige(ex, unit, "the text display produces for an exact number reads back as an exact number of the same value",
                           z3.And(rd != 0, rn * x.d == x.n * rd), inputs, replay)
            read_back(ex, chars, on_value)


# ------------------------------------------------------------------------------------------------ U2: booleans and characters
def spec_bool_char(chk):
    ex = chk.executor(True)
    ex.string_mode = "chars"
    nat = chk.ws.runner("dev")
    unit = "Display for Value (boolean / character) -> Lexer -> eval_primitive"
    install_fmt(ex)
    chk.region_ns = {}
    b = z3.Bool("b")
    c = lexskel.char_var(ex, "c")
    which = z3.Bool("is_char")
    inputs = {"b": b, "c": c, "is_char": which}
    f = ex.resolve("<values::Value<R> as Display>::fmt")

    def replay(vals):
        tok = ("C %d" % vals["c"]) if vals["is_char"] else ("B %d" % (1 if vals["b"] else 0))
        text, res = native_roundtrip(nat, tok)
        return res.strip() != "OK " + tok, "(display %s) prints %r, which reads back as %s" % (tok, text, res[:60])

    ex.panic_hook = lambda info: chk.oblige(ex, unit, "no-panic", z3.BoolVal(False), inputs, replay)
    for k in ex.branches([which, z3.Not(which)]):
        v = Adt("Value", "Character", [c]) if k == 0 else Adt("Value", "Boolean", [b])
        for rv in ex.run(f, [Ref(Cell(v)), Ref(Cell(Opaque("Formatter", "f")))]):
            pieces = merge_lits(output_of(ex))
            for chars in render(ex, pieces, 1):
                def on_value(val, why):
                    chk.path(unit)
                    if val is None:
                        chk.oblige(ex, unit, "the printed text is one token that converts back", z3.BoolVal(False), inputs, replay)
                        return
                    if k == 0:
                        good = isinstance(val, Adt) and val.variant == "Character"
                        chk.oblige(ex, unit, "a character reads back as the same character", z3.And(z3.BoolVal(good), val.fields[0] == c) if good else z3.BoolVal(False), inputs, replay)
                    else:
                        good = isinstance(val, Adt) and val.variant == "Boolean"
                        chk.oblige(ex, unit, "a boolean reads back as the same boolean", z3.And(z3.BoolVal(good), val.fields[0] == b) if good else z3.BoolVal(False), inputs, replay)
                read_back(ex, chars, on_value)


# ------------------------------------------------------------------------------------------------ U3/U4: list and vector structure
def py_text(shape):
    """expected text of a shape: ('e', i) | ('list', [shapes], tail-or-None) | ('vec', [shapes])"""
    if shape[0] == "e":
        return "<%d>" % shape[1]
    if shape[0] == "list":
        s = "(" + " ".join(py_text(x) for x in shape[1])
        if shape[2] is not None:
            s += " . " + py_text(shape[2])
        return s + ")"
    return "#(" + " ".join(py_text(x) for x in shape[1]) + ")"


def build_value(shape, elems, mutable=False):
    if shape[0] == "e":
        return elems[shape[1]]
    if shape[0] == "vec":
        items = [build_value(x, elems) for x in shape[1]]
        seq = SeqObj("vecitems%d" % id(shape), "values::Value<R>", [Cell(v) for v in items], len(items), len(items))
        inner = Ref(Cell(seq, "rc_vec"))
        return Adt("Value", "Vector", [Adt("ValueReference", "Immutable", [inner])])
    tail = build_value(shape[2], elems) if shape[2] is not None else Adt("Value", "Pair", [Ref(Cell(Adt("GenericPair", "Empty", []), "box_empty"))])
    cur = tail
    for x in reversed(shape[1]):
        cur = Adt("Value", "Pair", [Ref(Cell(Adt("GenericPair", "Some", [build_value(x, elems), cur]), "box_pair"))])
    return cur


def tok_of(shape):
    if shape[0] == "e":
        return "I %d" % (shape[1] + 1)
    if shape[0] == "vec":
        return "VI %d %s" % (len(shape[1]), " ".join(tok_of(x) for x in shape[1]))
    if shape[2] is None:
        return ("L %d %s" % (len(shape[1]), " ".join(tok_of(x) for x in shape[1]))).strip() if shape[1] else "N"
    return "D %d %s %s" % (len(shape[1]), " ".join(tok_of(x) for x in shape[1]), tok_of(shape[2]))


E = lambda i: ("e", i)
SHAPES = [
    ("list", [], None), ("list", [E(0)], None), ("list", [E(0), E(1)], None), ("list", [E(0), E(1), E(2)], None),
    ("list", [E(0)], E(1)), ("list", [E(0), E(1)], E(2)),
    ("list", [("list", [E(0), E(1)], None), E(2)], None), ("list", [E(0), ("list", [], None)], None), ("list", [("list", [E(0)], E(1))], None),
    ("list", [E(0), ("list", [E(1)], E(2))], None),
    ("vec", []), ("vec", [E(0)]), ("vec", [E(0), E(1), E(2)]), ("vec", [("list", [E(0), E(1)], None), E(2)]), ("list", [("vec", [E(0), E(1)]), E(2)], None),
]


def structure_probe(nat):
    for sh in SHAPES:
        text, res = native_roundtrip(nat, tok_of(sh))
        want = py_text(sh)
        for i in range(3):
            want = want.replace("<%d>" % i, str(i + 1))
        if text != want:
            return True, "(display %s) prints %r (expected %r)" % (tok_of(sh), text, want)
        if sh[0] == "vec" and res.startswith("OK VI") and res.split()[2:] == tok_of(sh).split()[2:]:
            continue
        norm = lambda s_: s_.replace("L 0", "N").strip()
        if norm(res) != "OK " + norm(tok_of(sh)):
            return True, "(display %s) prints %r, which reads back as %s" % (tok_of(sh), text, res[:60])
    # lists that contain the symbol quote (a printer that abbreviates must not lose elements), symbols next to characters
    Q = "Y " + "quote".encode().hex()
    A, B = "Y " + "a".encode().hex(), "Y " + "b".encode().hex()
    for tok, want in [("L 2 %s %s" % (Q, A), None), ("L 3 %s %s %s" % (Q, A, B), "(quote a b)"), ("D 2 %s I 1 I 2" % Q, "(quote 1 . 2)"), ("L 3 I 1 %s I 2" % Q, "(1 quote 2)"),
                      ("L 1 %s" % Q, "(quote)"), ("L 2 L 3 %s %s %s I 7" % (Q, A, B), "((quote a b) 7)"), ("VI 2 L 3 %s %s %s I 7" % (Q, A, B), "#((quote a b) 7)")]:
        text, res = native_roundtrip(nat, tok)
        if want is not None and text != want:
            return True, "(display %s) prints %r (expected %r)" % (tok, text, want)
        if res.strip() != "OK " + tok:
            return True, "(display %s) prints %r, which reads back as %s" % (tok, text, res[:60])
    # a vector (empty or not) as the tail of an improper list, and an empty list / empty vector as elements
    for tok, want in [("D 1 I 1 VI 1 I 2", "(1 . #(2))"), ("D 2 I 1 I 2 VI 0", "(1 2 . #())"), ("L 2 VI 0 N", "(#() ())"), ("D 1 VI 0 VI 0", "(#() . #())"),
                      ("VI 2 D 1 I 1 VI 1 I 2 N", "#((1 . #(2)) ())")]:
        text, res = native_roundtrip(nat, tok)
        if text != want:
            return True, "(display %s) prints %r (expected %r)" % (tok, text, want)
        nrm = lambda s_: s_.replace("VI", "V").replace("L 0", "N").split()
        if nrm(res) != ["OK"] + nrm(tok):
            return True, "(display %s) prints %r, which reads back as %s" % (tok, text, res[:60])
    return False, "native print / read-back probes of %d list and vector shapes agree" % (len(SHAPES) + 12)


def spec_structure(chk):
    nat = chk.ws.runner("dev")
    replay = lambda vals: structure_probe(nat)
    chk.run_probes("list and vector structure", structure_probe, nat, len(SHAPES))
    for sh in SHAPES:
        ex = chk.executor(True)
        ex.string_mode = "chars"
        ex.loop_bound = 12
        unit = "Display for Value, shape %s" % py_text(sh)
        chk.region_ns = {}
        elems = [Lazy("values::Value<R>", "elem%d" % i) for i in range(3)]

        def elem_hook(ex_, val, ty, elems=elems):
            for i, e in enumerate(elems):
                if val is e:
                    return ("lit", "<%d>" % i)
            return None

        install_fmt(ex, elem_hook)
        for e in elems:
            # an element standing at the end of an improper list is by definition not a pair
            ex.ctx.add(ex.lazy_tag(e) != ENUMS["Value"].index("Pair"))
        v = build_value(sh, elems)
        f = ex.resolve("<values::Value<R> as Display>::fmt")
        ex.panic_hook = lambda info, ex=ex, unit=unit: chk.oblige(ex, unit, "no-panic", z3.BoolVal(False), {}, replay)
        for rv in ex.run(f, [Ref(Cell(v)), Ref(Cell(Opaque("Formatter", "f")))]):
            chk.path(unit)
            pieces = merge_lits(output_of(ex))
            text = pieces[0][1] if len(pieces) == 1 and pieces[0][0] == "lit" else ("" if not pieces else None)
            ok = isinstance(rv, Adt) and rv.variant == "Ok"
            chk.oblige(ex, unit, "elements once each, in order, separated by single spaces; a dotted tail exactly when the list is improper; nesting preserved",
                       z3.BoolVal(bool(ok and text == py_text(sh))), {}, replay)


def run(chk):
    thorough = chk.tier == "thorough"
    D = 10 if thorough else 7
    chk.bounds = {"exact numbers": "every Integer and every Rational with non-zero denominator of either sign, components below 10^%d in magnitude%s" % (D, " (= all of i32)" if D == 10 else ""),
                  "booleans and characters": "both booleans, every Unicode scalar value",
                  "lists and vectors": "%d shapes: proper lists of 0..3 elements, improper lists, lists in lists, vectors of 0..3 elements, a list in a vector and a vector in a list; element printing stubbed" % len(SHAPES)}
    chk.assumptions += [
        "a SLICE of C16: reals (Rust's shortest-float printing and f64 parsing), symbols, strings, and reading list / vector text back through the parser are outside; the list / vector units decide the printed FORMAT, their read-back is only probed natively",
        "core::fmt is reduced to 'append these pieces': the format template bytes of each write!/format! are decoded (literal text, placeholders without options), i32 Display = canonical decimal (optional '-', no leading zeros), char Display = the character, itertools::join = items with the separator between them",
        "the printed text is read back by the real Lexer (symbolic execution, as in C06/C07) followed by Interpreter::eval_primitive",
    ]
    chk.step("exact numbers", spec_numbers, chk, D)
    chk.step("booleans and characters", spec_bool_char, chk)
    chk.step("list and vector structure", spec_structure, chk)
