"""C07 - no input can crash the interpreter: lexer + numeric-literal slice.   (DESIGN.md section 4, C07)"""
import z3

from ..core import Adt, Lazy, Ref, Cell, SeqObj, IterObj, Opaque, StrVal, CharStr, Tup, Unsupported
from ..harness import hexs
from ..models import Some, NONE
from ..mir import ENUMS
from . import lexskel


def text_of(model, chars, ln):
    n = model.eval(ln, model_completion=True).as_long() if not isinstance(ln, int) else ln
    return "".join(chr(model.eval(c, model_completion=True).as_long()) for c in chars[:n])


def native_crashes(nat, text):
    """does the real interpreter panic/abort on this text? (lexing alone, and reading + evaluating it as a program)"""
    out1 = nat.cmd("tokens %s" % hexs(text))
    if out1.startswith(("PANIC", "ABORT")):
        return True, "lexing %r: %s" % (text, out1[:40])
    out2 = nat.cmd("eval %s" % hexs(text))
    if "PANIC" in out2 or out2.startswith("ABORT"):
        return True, "evaluating %r: %s" % (text, out2[:60])
    return False, "no crash on %r: %s | %s" % (text, out1[:30], out2[:40])


def run_family(chk, unit, build, max_tokens, loop_bound=20):
    """build(ex) -> (chars, ln, description inputs). Obligation: no panic outcome while lexing the text and converting its literals."""
    ex = chk.executor(True)
    ex.string_mode = "chars"
    ex.loop_bound = loop_bound   # digit runs of up to 11 characters pass through digital10's loop
    nat = chk.ws.runner("dev")
    chars, ln = build(ex)
    lx, src, peek = lexskel.make_lexer(ex, chars, ln)
    inputs = {"len": ln if not isinstance(ln, int) else z3.IntVal(ln)}
    for i, c in enumerate(chars):
        inputs["c%d" % i] = c
    chk.region_ns = {"digit": lambda c: z3.And(c >= 48, c <= 57)}
    fprim = ex.fn_by_suffix("::eval_primitive")

    def replay(vals):
        n = vals["len"]
        text = "".join(chr(vals["c%d" % i]) for i in range(n))
        return native_crashes(nat, text)

    def replay_zero_den(vals):
        n = vals["len"]
        text = "".join(chr(vals["c%d" % i]) for i in range(n))
        out = nat.cmd("tokdump %s" % hexs(text))
        import re as _re
        return bool(_re.search(r"Q -?\d+ 0( |$)", out)), "real lexer on %r: %s" % (text, out[:80])

    def on_panic(info):
        chk.unit(unit)["panic_outcomes"] += 1
        chk.oblige(ex, unit, "no panic while reading the text and converting its literals", z3.BoolVal(False), inputs, replay)

    ex.panic_hook = on_panic
    stats = {"end": 0, "error": 0, "cut": 0}

    def on_end(tokens, status, err):
        chk.path(unit)
        stats[status] += 1
        # the literal-conversion stage of the evaluator on every primitive token the lexer produced
        for tok, a, b in tokens:
            td = tok.fields[0]
            if isinstance(td, Adt) and td.variant == "Primitive":
                prim = td.fields[0]
                if isinstance(prim, Adt) and prim.variant == "Rational":
                    # the precondition of the eval_primitive unit: the lexer never emits a ratio with a zero denominator
                    chk.oblige(ex, unit, "a ratio token has a non-zero denominator", prim.fields[1] != 0, inputs, replay_zero_den)
                for _ in ex.run(fprim, [Ref(Cell(prim))]):
                    pass
        # reachability witness for this family (every path ends in a value or a reported error)
        chk.oblige(ex, unit, "reading ends in tokens or in a reported error", z3.BoolVal(True), inputs, replay)

    lexskel.run_tokens(ex, lx, src, peek, max_tokens, on_end)
    chk.notes.append("%s: %s" % (unit, stats))


def spec_eval_primitive(chk):
    """the literal-conversion stage on its own, from an ARBITRARY numeric / boolean / character literal token
    (every i32 numerator, every non-zero u32 denominator - the lexer rejects a zero denominator, which the ratio families
    oblige): no panic. The lexer families reach this stage only through the texts within their length bounds."""
    unit = "Interpreter::eval_primitive on an arbitrary Integer / Rational / Boolean / Character literal"
    ex = chk.executor(True)
    ex.loop_bound = 8
    nat = chk.ws.runner("dev")
    fprim = ex.fn_by_suffix("::eval_primitive")
    a = ex.fresh_int(ty="i32", name="a")
    b = ex.fresh_int(ty="u32", name="b")
    c = ex.fresh_value("char", "c")
    t = z3.Bool("t")
    kind = z3.Int("kind")
    ex.ctx.add(b != 0, kind >= 0, kind <= 3)
    inputs = {"kind": kind, "a": a, "b": b, "c": c, "t": t}

    def text_for(v):
        if v["kind"] == 0:
            return str(v["a"])
        if v["kind"] == 1:
            return "%d/%d" % (v["a"], v["b"])
        if v["kind"] == 2:
            return "#t" if v["t"] else "#f"
        return "#\\" + chr(v["c"])

    def replay(v):
        return native_crashes(nat, text_for(v))

    def on_panic(info):
        chk.unit(unit)["panic_outcomes"] += 1
        chk.oblige(ex, unit, "no panic while converting the literal", z3.BoolVal(False), inputs, replay)

    ex.panic_hook = on_panic
    toks = [Adt("Primitive", "Integer", [a]), Adt("Primitive", "Rational", [a, b]), Adt("Primitive", "Boolean", [t]), Adt("Primitive", "Character", [c])]
    for k in ex.branches([kind == i for i in range(4)]):
        for _ in ex.run(fprim, [Ref(Cell(toks[k]))]):
            chk.path(unit)
            chk.oblige(ex, unit, "conversion ends in a value or a reported error", z3.BoolVal(True), inputs, replay)


def fam_all(N):
    def build(ex):
        chars = [lexskel.char_var(ex, "c%d" % i) for i in range(N)]
        ln = z3.Int("len")
        ex.ctx.add(ln >= 0, ln <= N)
        return chars, ln
    return build


def fam_digits(maxd, tail):
    """[sign] digits{1..maxd} followed by `tail` arbitrary characters"""
    def build(ex):
        n = maxd + 1 + tail
        chars = [lexskel.char_var(ex, "c%d" % i) for i in range(n)]
        ln = z3.Int("len")
        nd = z3.Int("ndigits")
        signed = z3.Bool("signed")
        ex.ctx.add(nd >= 1, nd <= maxd, ln >= 0, ln <= n)
        off = z3.If(signed, 1, 0)
        ex.ctx.add(ln >= off + nd, ln <= off + nd + tail)
        ex.ctx.add(z3.Implies(signed, z3.Or(chars[0] == 43, chars[0] == 45)))
        for i in range(n):
            isd = z3.And(chars[i] >= 48, chars[i] <= 57)
            ex.ctx.add(z3.Implies(z3.And(i >= off, i < off + nd), isd))
        return chars, ln
    return build


def fam_ratio(maxn, maxd, tail):
    """digits{1..maxn} '/' digits{0..maxd} followed by `tail` arbitrary characters"""
    def build(ex):
        n = maxn + 1 + maxd + tail
        chars = [lexskel.char_var(ex, "c%d" % i) for i in range(n)]
        ln = z3.Int("len")
        a = z3.Int("nnum")
        b = z3.Int("nden")
        ex.ctx.add(a >= 1, a <= maxn, b >= 0, b <= maxd, ln >= a + 1 + b, ln <= a + 1 + b + tail)
        for i in range(n):
            isd = z3.And(chars[i] >= 48, chars[i] <= 57)
            ex.ctx.add(z3.Implies(i < a, isd), z3.Implies(i == a, chars[i] == 47), z3.Implies(z3.And(i > a, i <= a + b), isd))
        return chars, ln
    return build


def fam_signed_ratio(tail):
    """sign digits{10} '/' digits{1..2}: numerators at the i32 boundary"""
    def build(ex):
        n = 1 + 10 + 1 + 2 + tail
        chars = [lexskel.char_var(ex, "c%d" % i) for i in range(n)]
        ln = z3.Int("len")
        b = z3.Int("nden")
        ex.ctx.add(b >= 1, b <= 2, ln >= 12 + b, ln <= 12 + b + tail, z3.Or(chars[0] == 43, chars[0] == 45), chars[11] == 47)
        for i in range(1, 11):
            ex.ctx.add(z3.And(chars[i] >= 48, chars[i] <= 57))
        for i in range(12, 14):
            ex.ctx.add(z3.Implies(i < 12 + b, z3.And(chars[i] >= 48, chars[i] <= 57)))
        return chars, ln
    return build


def fam_long_token(opener, n):
    """an opener ('|' '"' or nothing), n times the letter a, then two arbitrary characters, then the end: tokens (and the
    error texts built from them) around fixed lengths"""
    def build(ex):
        pre = [z3.IntVal(ord(opener))] if opener else []
        chars = pre + [z3.IntVal(97)] * n + [lexskel.char_var(ex, "c%d" % i) for i in range(2)]
        ln = z3.Int("len")
        ex.ctx.add(ln >= len(chars) - 2, ln <= len(chars))
        return chars, ln
    return build


def fam_hex_escape(nhex):
    """'"' '\\' 'x' hex{nhex} ';' '"': hexadecimal escapes in strings (the digits are arbitrary hexadecimal digits)"""
    def build(ex):
        hexs_ = [lexskel.char_var(ex, "c%d" % i) for i in range(nhex)]
        for c in hexs_:
            ex.ctx.add(z3.Or(z3.And(c >= 48, c <= 57), z3.And(c >= 65, c <= 70), z3.And(c >= 97, c <= 102)))
        chars = [z3.IntVal(34), z3.IntVal(92), z3.IntVal(120)] + hexs_ + [z3.IntVal(59), z3.IntVal(34)]
        return chars, len(chars)
    return build


def fam_long_exponent(ndig):
    """digit 'e' [sign] digits{ndig}: exponents whose value leaves every machine integer"""
    def build(ex):
        sign = lexskel.char_var(ex, "c1")
        digs = [lexskel.char_var(ex, "c%d" % (i + 2)) for i in range(ndig)]
        first = lexskel.char_var(ex, "c0")
        ex.ctx.add(z3.And(first >= 48, first <= 57), z3.Or(sign == 43, sign == 45, z3.And(sign >= 48, sign <= 57)))
        for d in digs:
            ex.ctx.add(z3.And(d >= 48, d <= 57))
        chars = [first, z3.IntVal(101), sign] + digs
        return chars, len(chars)
    return build


def fam_char_literal():
    """'#' '\\' followed by two arbitrary characters (all Unicode), then the end: character literals and what follows them"""
    def build(ex):
        chars = [z3.IntVal(35), z3.IntVal(92)] + [lexskel.char_var(ex, "c%d" % i) for i in range(2)]
        ln = z3.Int("len")
        ex.ctx.add(ln >= 2, ln <= 4)
        return chars, ln
    return build


def fam_real(tail, body=5):
    """texts over the characters of real literals: digits, sign, '.', 'e', plus `tail` arbitrary characters at the end"""
    def build(ex):
        n = body + tail
        chars = [lexskel.char_var(ex, "c%d" % i) for i in range(n)]
        ln = z3.Int("len")
        ex.ctx.add(ln >= 1, ln <= n)
        for i in range(body):
            c = chars[i]
            ex.ctx.add(z3.Or(z3.And(c >= 48, c <= 57), c == 43, c == 45, c == 46, c == 101))
        return chars, ln
    return build


def run(chk):
    thorough = chk.tier == "thorough"
    N = 4 if thorough else 3
    chk.bounds = {"all texts": "every text of <= %d characters over ALL Unicode scalar values (the lexer's own branches split the classes)" % N,
                  "digit runs": "[sign] 1..11 digits + <= 1 further character; 1..3 digits '/' 0..11 digits + <= 1 further character; sign 10 digits '/' 1..2 digits + <= 1 further character; texts of <= 5 characters over digits/sign/./e + <= 1 further character",
                  "long tokens": "'|' followed by 0..%d letters (quick: '\"' or nothing followed by 0, 1, 7, 8, 15, 16, 23, 24, 31, 32 letters; thorough: every count up to 69 for all three), then two arbitrary characters (all Unicode), then the end" % (69 if thorough else 33),
                  "long exponents": "a digit, e, a sign or digit, then 9, 10 or 11 digits (thorough: also 19, 20)",
                  "character literals": "#\\ followed by <= 2 arbitrary characters (all Unicode)",
                  "hexadecimal escapes": "a string consisting of one \\x escape with 1..6 arbitrary hexadecimal digits",
                  "stages": "Lexer::next until the end of the text, then Interpreter::eval_primitive on every literal token",
                  "literal conversion unit": "Interpreter::eval_primitive from every Integer(i32), Rational(i32, non-zero u32), Boolean and Character token; loops unrolled 8 times"}
    chk.assumptions += [
        "slice of C07: the lexer and the literal-conversion stage only; parser, expander and evaluator panics (pair.rs todo!(), ParameterFormals::as_name unreachable!(), i32 overflow in arithmetic, file_char_stream) are outside this check",
        "String is modelled as the list of its characters; str::parse::<i32/u32> = optional sign + digits + range; str::parse::<f64> = acceptance by Rust's decimal float grammar",
        "stack exhaustion, non-termination and memory exhaustion are outside (as in the property)",
    ]
    chk.step("eval_primitive unit", spec_eval_primitive, chk)
    chk.step("ratio literals at the i32 boundary", run_family, chk, "Lexer on sign digits{10} '/' digits{1..2} + one more character", fam_signed_ratio(1), 4)
    chk.step("integer literals", run_family, chk, "Lexer on [sign] digits{1..11} + one more character", fam_digits(11, 1), 4)
    chk.step("ratio literals", run_family, chk, "Lexer on digits{1..3} '/' digits{0..11} + one more character", fam_ratio(3, 11, 1), 4)
    chk.step("all texts", run_family, chk, "Lexer::next over every text of <= %d characters, then eval_primitive" % N, fam_all(N), N + 1)
    chk.step("character literals", run_family, chk, "Lexer on #\\ followed by <= 2 arbitrary characters", fam_char_literal(), 4)
    for nd in (9, 10, 11) + ((19, 20) if thorough else ()):
        chk.step("long exponent, %d digits" % nd, run_family, chk, "Lexer on digit e [sign] digits{%d}" % nd, fam_long_exponent(nd), 3, 30)
    for nh in range(1, 7):
        chk.step("hexadecimal string escapes, %d digits" % nh, run_family, chk, "Lexer on a string with a \\x escape of %d hexadecimal digits" % nh, fam_hex_escape(nh), 3)
    for opener in ("|", '"', ""):
        for n in (range(0, 70) if thorough else (range(0, 34) if opener == "|" else (0, 1, 7, 8, 15, 16, 23, 24, 31, 32))):
            chk.step("long token %s a*%d" % (opener or "identifier", n), run_family, chk, "Lexer on %s followed by n letters (n <= %d) and two arbitrary characters" % (repr(opener) if opener else "an identifier", 69 if thorough else 33), fam_long_token(opener, n), 4, n + 8)
    chk.step("real literals", run_family, chk, "Lexer on <= %d characters of digits/sign/./e + one more character" % (5 if thorough else 4), fam_real(1, 5 if thorough else 4), 5)
