"""C14 - library loading: outcome depends only on the graph (mechanism level).   (DESIGN.md section 4, C14)"""
import z3

from ..core import Adt, Lazy, Ref, Cell, SeqObj, MapObj, Opaque, IterObj, Unsupported
from ..harness import hexs
from ..models import Ok, Err, Some, NONE
from . import skel
from . import numlib as nl


class LibName:
    """abstract library name: equality = equality of a symbolic id"""

    def __init__(self, ident, label):
        self.id = ident
        self.label = label

    def __repr__(self):
        return "<libname %s>" % self.label


def lib(name, imports=(), body="(define v%s 1)", export=None):
    imps = "".join("(import (%s))" % i for i in imports)
    return (name, "(define-library (%s) %s (export v%s) (begin (define v%s 1)))" % (name, imps, name, name))


# (libraries, program, expected outcome kind per form)
GRAPH_PROBES = [
    # a failed import must not poison later attempts (the history clause)
    ([], "(import (nolib))\n(import (nolib))", ["ERR LibraryNotFound", "ERR LibraryNotFound"]),
    ([lib("good")], "(import (nolib))\n(import (good))\nvgood", ["ERR LibraryNotFound", "OK -", "OK I 1"]),
    # self-cycle, 2-cycle, 3-cycle
    ([lib("a", ["a"])], "(import (a))", ["ERR LibraryImportCyclic"]),
    ([lib("a", ["b"]), lib("b", ["a"])], "(import (a))\n(import (b))", ["ERR LibraryImportCyclic", "ERR LibraryImportCyclic"]),
    ([lib("a", ["b"]), lib("b", ["c"]), lib("c", ["a"])], "(import (a))", ["ERR LibraryImportCyclic"]),
    # diamond: a shared dependency reached by two paths is not a cycle
    ([lib("a", ["b", "c"]), lib("b", ["d"]), lib("c", ["d"]), lib("d")], "(import (a))\nva", ["OK -", "OK I 1"]),
    # the same library twice: in one declaration and in a later form
    ([lib("d")], "(import (d) (d))\n(import (d))\nvd", ["OK -", "OK -", "OK I 1"]),
    # a missing library below a healthy one: the underlying error, and afterwards everything still works
    ([lib("a", ["b"]), lib("b", ["zz"]), lib("d")], "(import (a))\n(import (a))\n(import (d))\nvd", ["ERR LibraryNotFound", "ERR LibraryNotFound", "OK -", "OK I 1"]),
    # a cycle reached after a healthy import of part of it
    ([lib("a", ["b"]), lib("b", ["a"]), lib("d")], "(import (d))\n(import (a))\n(import (d))", ["OK -", "ERR LibraryImportCyclic", "OK -"]),
    # nested import sets around the name go through the same bookkeeping
    ([lib("a", ["a"]), lib("d")], "(import (only (a) va))\n(import (prefix (d) p-))\np-vd", ["ERR LibraryImportCyclic", "OK -", "OK I 1"]),
    # cycles whose edges are import sets, not bare names
    ([("a", "(define-library (a) (import (only (b) vb)) (export va) (begin (define va 1)))"), ("b", "(define-library (b) (import (only (a) va)) (export vb) (begin (define vb 1)))")],
     "(import (a))", ["ERR LibraryImportCyclic"]),
    ([("a", "(define-library (a) (import (prefix (a) q-)) (export va) (begin (define va 1)))")], "(import (rename (a) (va vz)))", ["ERR LibraryImportCyclic"]),
    # a library on a cycle finishes another import declaration (or an earlier import set) first: still a cycle
    ([("a", "(define-library (a) (import (d)) (import (b)) (export va) (begin (define va 1)))"), lib("b", ["a"]), lib("d")], "(import (a))", ["ERR LibraryImportCyclic"]),
    ([("a", "(define-library (a) (import (d) (b)) (export va) (begin (define va 1)))"), lib("b", ["a"]), lib("d")], "(import (b))\n(import (d))\nvd", ["ERR LibraryImportCyclic", "OK -", "OK I 1"]),
    # the underlying error names the library that is missing, not the one that imported it (also through a diamond)
    ([lib("a", ["b"]), lib("b", ["gone"])], "(import (a))", ["ERR LibraryNotFound ~gone"]),
    ([lib("top", ["l", "r"]), lib("l", ["d"]), lib("r", ["d"]), lib("d", ["gone"])], "(import (top))", ["ERR LibraryNotFound ~gone"]),
    # a diamond visited three times, then once more
    ([lib("a", ["b", "c", "d"]), lib("b", ["d"]), lib("c", ["d"]), lib("d")], "(import (a))\n(import (d))\nvd", ["OK -", "OK -", "OK I 1"]),
]
_A = "(define-library (a) (export va) (begin (define va 1)))"
# (files <stem>.sld in the program directory, program, expected outcomes): libraries found through the file system
FILE_PROBES = [
    ([("a", _A)], "(import (a))\n(import (zz))\n(import (a))\nva", ["OK -", "ERR LibraryNotFound ~zz", "OK -", "OK I 1"]),
    # a file that does not define the library it is named after: not found, and nothing else becomes importable through it
    ([("b", "(define-library (c) (export vc) (begin (define vc 2)))")], "(import (b))\n(import (c))\n(+ 1 2)", ["ERR LibraryNotFound ~b", "ERR LibraryNotFound ~c", "OK I 3"]),
    # a second definition inside another library's file never shadows that library's own file
    ([("util", "(define-library (c) (export vc) (begin (define vc 2)))\n(define-library (util) (export vu) (begin (define vu 5)))"), ("c", "(define-library (c) (export vc) (begin (define vc 1)))")],
     "(import (util))\n(import (c))\nvc", ["OK -", "OK -", "OK I 1"]),
    ([("util", "(define-library (c) (export vc) (begin (define vc 2)))\n(define-library (util) (export vu) (begin (define vu 5)))"), ("c", "(define-library (c) (export vc) (begin (define vc 1)))")],
     "(import (c))\n(import (util))\nvc", ["OK -", "OK -", "OK I 1"]),
    # a malformed file is an error of its own and poisons nothing
    ([("bad", "(define-library (bad) (export x"), ("a", _A)], "(import (bad))\n(import (a))\nva", ["ERR Syntax", "OK -", "OK I 1"]),
    # names with several parts live in sub-directories of the PROGRAM's directory, also for the libraries they import and for later imports
    ([("app/core", "(define-library (app core) (import (app util)) (export vcore) (begin (define vcore 1)))"), ("app/util", "(define-library (app util) (export vutil) (begin (define vutil 2)))"),
      ("two", "(define-library (two) (export vtwo) (begin (define vtwo 2)))"), ("app/two", "(define-library (two) (export vtwo) (begin (define vtwo 99)))")],
     "(import (app core))\n(import (two))\nvtwo", ["OK -", "OK -", "OK I 2"]),
    # cycles and diamonds through files
    ([("a", "(define-library (a) (import (b)) (export va) (begin (define va 1)))"), ("b", "(define-library (b) (import (a)) (export vb) (begin (define vb 1)))")], "(import (a))\n(+ 1 2)", ["ERR LibraryImportCyclic", "OK I 3"]),
    ([("a", "(define-library (a) (import (b) (c)) (export va) (begin (define va 1)))"), ("b", "(define-library (b) (import (d)) (export vb) (begin (define vb 1)))"),
      ("c", "(define-library (c) (import (d)) (export vc) (begin (define vc 1)))"), ("d", "(define-library (d) (export vd) (begin (define vd 1)))")], "(import (a))\nva", ["OK -", "OK I 1"]),
]
_PROBE = {}


def graph_probe(nat):
    if id(nat) in _PROBE:
        return _PROBE[id(nat)]
    res = (False, "native import-graph probes (failed import then retry, self/2/3-cycles, diamond, repeated import, missing dependency, cycle after healthy import, nested import sets) all give the expected outcomes")
    for libs, prog, want, how in [(l, p_, w, "libs 0") for (l, p_, w) in GRAPH_PROBES] + [(l, p_, w, "flibs") for (l, p_, w) in FILE_PROBES]:
        cmd = "%s %d %s %s" % (how, len(libs), " ".join("%s %s" % (hexs(n), hexs(s)) for n, s in libs), hexs(prog))
        out = nat.cmd(cmd).split(" ;;; ")[0]
        raw = [f.strip() for f in out.split(" ;; ")]
        got = []
        for k, f in enumerate(raw):
            if f.startswith("ERR"):
                t = f.split()
                g = " ".join(t[:2])
                # "ERR Kind ~text": the error message must mention text
                w = want[k] if k < len(want) else ""
                if " ~" in w:
                    try:
                        msg = bytes.fromhex(t[-1]).decode("utf8", "replace")
                    except Exception:
                        msg = ""
                    g += " ~" + (w.split(" ~", 1)[1] if w.split(" ~", 1)[1] in msg else "<message: %s>" % msg)
                got.append(g)
            else:
                got.append(f)
        if got != want:
            res = (True, "libraries %s, program %r: outcomes %s (expected %s)" % ([n for n, _ in libs], prog, got, want))
            break
    _PROBE[id(nat)] = res
    return res


def spec_in_progress(chk, NL, DEPTH2=False):
    ex = chk.executor(True)
    nat = chk.ws.runner("dev")
    unit = "Interpreter::eval_import_set around a library name (get_library stubbed)"
    chk.region_ns = {}
    replay = lambda vals: graph_probe(nat)
    # in-progress set: arbitrary subset of NL known names
    names = [LibName(z3.IntVal(i), "L%d" % i) for i in range(NL)]
    inset = [z3.Bool("in_progress_%d" % i) for i in range(NL)]
    st = MapObj("imported_library", is_set=True)
    for n, b in zip(names, inset):
        st.entries.append((n, b, Cell(None)))
    target_id = z3.Int("target")
    ex.ctx.add(target_id >= 0, target_id <= NL)          # NL = a name not among the known ones
    target = LibName(target_id, "T")
    ex.key_eq_hook = lambda ex_, a, b: (a.id == b.id) if isinstance(a, LibName) and isinstance(b, LibName) else z3.BoolVal(a is b)
    target_in = z3.Or(*[z3.And(target_id == i, inset[i]) for i in range(NL)])
    inputs = {"target": target_id}
    for i in range(NL):
        inputs["in%d" % i] = inset[i]

    def member_now(ident):
        return z3.Or(*[z3.And(k.id == ident, p) for (k, p, c) in st.entries]) if st.entries else z3.BoolVal(False)

    @skel.stub(ex, r"::get_library$", "get_library -> any Ok(library) or any Err; logged with the in-progress membership of the requested name at that moment")
    def get_library(ex, callee, args, rt):
        nm = ex.deref(args[1])
        key = nm.fields[0] if isinstance(nm, Adt) else nm
        ex.log("get_library", name=key, in_progress=member_now(key.id))
        yield Ok(Lazy("interpreter::library::Library<R>", "the_library"))
        # an ARBITRARY error value (its kind can be inspected by the code under check, which must hand it on unchanged)
        e = Lazy("error::Located<error::ErrorData>", "underlying_error")
        ex.log("get_library_err", error=e)
        yield Err(e)

    @skel.stub(ex, r"Library::<R>::iter_definitions$|::iter_definitions$", "Library::iter_definitions -> a (here empty) sequence; the definitions are C12's subject")
    def iter_defs(ex, callee, args, rt):
        yield IterObj("seq", seq=SeqObj("defs", "?", [], 0, 0), pos=0, by_ref=True, mut=False)

    @skel.stub(ex, r"::file_library_factory$|::new_library$", "file_library_factory / new_library -> any Ok or any Err (filesystem and library evaluation are outside)")
    def loader(ex, callee, args, rt):
        ok_ty = "LibraryFactory" if callee.endswith("file_library_factory") else "interpreter::library::Library<R>"
        yield Ok(Lazy(ok_ty, "loaded"))
        e = skel.err_value("from " + callee.rsplit("::", 1)[1])
        ex.log("get_library_err", error=e)
        yield Err(e)

    ex.key_eq_hook = lambda ex_, a, b: (ex_.deref(a).id == ex_.deref(b).id) if isinstance(ex_.deref(a), LibName) and isinstance(ex_.deref(b), LibName) else z3.BoolVal(ex_.deref(a) is ex_.deref(b))
    it = Lazy("interpreter::Interpreter<R>", "it")
    it.fields[2] = st
    lib_name = Adt("Located", None, [target, Opaque("location", "loc")])
    direct = Adt("Located", None, [Adt("ImportSetBody", "Direct", [lib_name]), Opaque("location", "loc2")])

    def wrap_set(kind, inner):
        from ..core import StrVal
        ids = SeqObj("ids_" + kind, "String", [Cell(StrVal("va")), Cell(StrVal("vb"))], 2, 2)
        if kind in ("Only", "Except"):
            body = Adt("ImportSetBody", kind, [Ref(Cell(inner)), ids])
        elif kind == "Prefix":
            body = Adt("ImportSetBody", "Prefix", [Ref(Cell(inner)), StrVal("p-")])
        else:
            from ..core import Tup
            pairs = SeqObj("renames", "(String, String)", [Cell(Tup([StrVal("va"), StrVal("vc")]))], 1, 1)
            body = Adt("ImportSetBody", "Rename", [Ref(Cell(inner)), pairs])
        return Adt("Located", None, [body, Opaque("location", "loc_" + kind)])

    shapes = [("Direct", direct)] + [(k, wrap_set(k, direct)) for k in ("Only", "Except", "Prefix", "Rename")]
    if DEPTH2:
        shapes += [("%s(%s)" % (a, b), wrap_set(a, wrap_set(b, direct))) for a in ("Only", "Prefix", "Rename") for b in ("Only", "Except", "Prefix", "Rename")]
    f = ex.fn_by_suffix("::eval_import_set")
    ex.panic_hook = lambda info: chk.oblige(ex, unit, "no-panic", z3.BoolVal(False), inputs, replay)
    for shape, iset in shapes:
      for rv in ex.run(f, [Ref(Cell(it)), Ref(Cell(iset))]):
        chk.path(unit)
        evs = [e for e in ex.events if e["kind"] == "get_library"]
        gerr = [e for e in ex.events if e["kind"] == "get_library_err"]
        post = []
        # (a) the set is restored on EVERY exit
        for i in range(NL):
            post.append(member_now(z3.IntVal(i)) == inset[i])
        post.append(member_now(z3.IntVal(NL)) == z3.BoolVal(False))
        # (b) cyclic error <=> the name was in progress on entry; then get_library is not called
        is_err = isinstance(rv, Adt) and rv.variant == "Err"
        cyc = is_err and not isinstance(rv.fields[0], Opaque) and nl.err_kind(ex, rv.fields[0]) == "LibraryImportCyclic"
        post.append(z3.BoolVal(cyc) == target_in)
        post.append(z3.Implies(target_in, z3.BoolVal(not evs)))
        post.append(z3.Implies(z3.Not(target_in), z3.BoolVal(len(evs) == 1)))
        # (c) while get_library runs the name is in progress
        for e in evs:
            post.append(e["in_progress"])
            post.append(e["name"].id == target_id)
        # the underlying error is passed on unchanged
        if gerr:
            post.append(z3.BoolVal(is_err and ex.deref(rv.fields[0]) is gerr[0]["error"]))
        elif not cyc:
            post.append(z3.BoolVal(isinstance(rv, Adt) and rv.variant == "Ok"))
        chk.oblige(ex, unit, "the in-progress set is restored on every exit (Ok / underlying error / cyclic); cyclic error iff the name was in progress, then no load is attempted; the name is in progress while it loads",
                   z3.And(*post), inputs, replay)


def spec_eval_import_marks(chk, NL):
    """an import declaration as a whole neither adds nor removes in-progress marks (it runs inside library bodies too, while the
    libraries further up are still loading) and hands on the first error unchanged"""
    ex = chk.executor(True)
    nat = chk.ws.runner("dev")
    unit = "Interpreter::eval_import (eval_import_set stubbed): in-progress marks"
    chk.region_ns = {}
    replay = lambda vals: graph_probe(nat)
    names = [LibName(z3.IntVal(i), "L%d" % i) for i in range(NL)]
    inset = [z3.Bool("in_progress_%d" % i) for i in range(NL)]
    st = MapObj("imported_library", is_set=True)
    for n, b in zip(names, inset):
        st.entries.append((n, b, Cell(None)))
    inputs = {"in%d" % i: inset[i] for i in range(NL)}
    ex.key_eq_hook = lambda ex_, a, b: (ex_.deref(a).id == ex_.deref(b).id) if isinstance(ex_.deref(a), LibName) and isinstance(ex_.deref(b), LibName) else z3.BoolVal(ex_.deref(a) is ex_.deref(b))

    def member_now(ident):
        return z3.Or(*[z3.And(k.id == ident, p) for (k, p, c) in st.entries if isinstance(k, LibName)]) if st.entries else z3.BoolVal(False)

    @skel.stub(ex, r"::eval_import_set$", "eval_import_set -> any Ok(bindings) or any Err, marks untouched (its own obligation); logged")
    def eis(ex, callee, args, rt):
        n = len([e for e in ex.events if e["kind"] == "import_set"])
        ex.log("import_set", which=ex.deref(args[1]))
        yield Ok(SeqObj("bindings%d" % n, "(String, Value)", [], 0, 0))
        e = Lazy("error::Located<error::ErrorData>", "underlying_error%d" % n)
        ex.log("import_set_err", error=e)
        yield Err(e)

    it = Lazy("interpreter::Interpreter<R>", "it")
    it.fields[2] = st
    nsets = z3.Int("nsets")
    ex.ctx.add(nsets >= 0, nsets <= 2)
    inputs["nsets"] = nsets
    sets = ex.fresh_seq("set", "error::Located<parser::parser::ImportSetBody>", maxlen=2, ln=nsets)
    decl = Adt("ImportDeclaration", None, [sets])
    target = MapObj("target_defs")
    envrc = Ref(Cell(Adt("LexicalScope", None, [NONE, target]), "target_frame"))
    f = ex.fn_by_suffix("::eval_import")
    ex.panic_hook = lambda info: chk.oblige(ex, unit, "no-panic", z3.BoolVal(False), inputs, replay)
    for rv in ex.run(f, [Ref(Cell(it)), Ref(Cell(decl)), envrc]):
        chk.path(unit)
        errs = [e for e in ex.events if e["kind"] == "import_set_err"]
        post = [member_now(z3.IntVal(i)) == inset[i] for i in range(NL)]
        post.append(z3.BoolVal(all(isinstance(k, LibName) for (k, p, c) in st.entries)))
        post.append(z3.BoolVal(it.fields[2] is st))
        is_err = isinstance(rv, Adt) and rv.variant == "Err"
        if errs:
            post.append(z3.BoolVal(is_err and len(errs) == 1 and ex.deref(rv.fields[0]) is errs[0]["error"]))
        else:
            post.append(z3.BoolVal(isinstance(rv, Adt) and rv.variant == "Ok"))
        chk.oblige(ex, unit, "the in-progress marks after an import declaration are those before it; the first failing import set ends it with that very error",
                   z3.And(*post), inputs, replay)


def spec_registry(chk, NL):
    """get_library together with the real file_library_factory (filesystem and parsing stubbed): a load attempt may add to the
    registry of library factories only an entry for the REQUESTED name and never replaces an entry - otherwise what a later
    import finds would depend on the imports made before it"""
    ex = chk.executor(True)
    nat = chk.ws.runner("dev")
    unit = "Interpreter::get_library + file_library_factory (filesystem, parsing and new_library stubbed): factory registry"
    chk.region_ns = {}
    replay = lambda vals: graph_probe(nat)
    names = [LibName(z3.IntVal(i), "L%d" % i) for i in range(NL)]
    present = [z3.Bool("registered_%d" % i) for i in range(NL)]
    reg = MapObj("lib_factories")
    facts = []
    for i, (n, b) in enumerate(zip(names, present)):
        fo = Ref(Cell(Lazy("library_factory::GenericLibraryFactory<V>", "factory%d" % i), "factory_rc%d" % i))
        facts.append(fo)
        reg.entries.append((n, b, Cell(fo)))
    n0 = len(reg.entries)
    target_id = z3.Int("target")
    ex.ctx.add(target_id >= 0, target_id <= NL)
    target = LibName(target_id, "T")
    inputs = {"target": target_id}
    for i in range(NL):
        inputs["registered%d" % i] = present[i]
    ex.key_eq_hook = lambda ex_, a, b: (ex_.deref(a).id == ex_.deref(b).id) if isinstance(ex_.deref(a), LibName) and isinstance(ex_.deref(b), LibName) else z3.BoolVal(ex_.deref(a) is ex_.deref(b))

    @skel.stub(ex, r"::new_library$", "new_library -> any Ok or any Err; logged with the factory it was given")
    def new_library(ex, callee, args, rt):
        ex.log("new_library", factory=ex.deref(args[1]))
        yield Ok(Lazy("interpreter::library::Library<R>", "instance"))
        e = Lazy("error::Located<error::ErrorData>", "load_error")
        ex.log("load_err", error=e)
        yield Err(e)

    @skel.stub(ex, r"^(std::env::)?current_dir$", "current_dir -> any Ok(path) or any Err")
    def current_dir(ex, callee, args, rt):
        yield Ok(Opaque("PathBuf", "cwd"))
        yield Err(Opaque("std::io::Error", "io"))

    @skel.stub(ex, r"Path::join|PathBuf::join|::with_extension|LibraryName::path$|<.*PathBuf as Deref>::deref|<.*PathBuf as Clone>::clone|<.*PathBuf as AsRef<.*>>::as_ref|Path::to_owned|Path::to_path_buf|<.*Path as ToOwned>::to_owned", "path arithmetic -> an opaque path")
    def path_ops(ex, callee, args, rt):
        yield Opaque("PathBuf", "path")

    @skel.stub(ex, r"Path::parent$", "Path::parent -> some directory")
    def path_parent(ex, callee, args, rt):
        yield Some(Opaque("Path", "parent_directory"))

    @skel.stub(ex, r"Path::exists$", "Path::exists -> either")
    def exists(ex, callee, args, rt):
        b = ex.fresh_bool("file_exists")
        ex.log("exists", cond=b)
        yield b

    @skel.stub(ex, r"(^|::)file_char_stream$", "file_char_stream -> any Ok(stream) or any Err")
    def fcs(ex, callee, args, rt):
        yield Ok(Opaque("CharStream", "stream"))
        e = Lazy("error::Located<error::ErrorData>", "read_error")
        ex.log("load_err", error=e)
        yield Err(e)

    @skel.stub(ex, r"::from_char_stream(::<.*>)?$", "LibraryFactory::from_char_stream -> any Ok(factory) or any Err; logged with the requested name")
    def fchs(ex, callee, args, rt):
        ex.log("parse_file", name=ex.deref(args[0]))
        yield Ok(Lazy("library_factory::GenericLibraryFactory<V>", "factory_from_file"))
        e = Lazy("error::Located<error::ErrorData>", "parse_error")
        ex.log("load_err", error=e)
        yield Err(e)

    # should the code under check read the file itself instead of calling from_char_stream: an arbitrary sequence of <= 2 statements
    def parser_items(ex_, it_):
        n = len([e for e in ex_.events if e["kind"] == "file_statement"])
        yield NONE
        if n < 2:
            ex_.log("file_statement")
            yield Some(Ok(Lazy("parser::parser::Statement", "file_statement%d" % n)))
            e = Lazy("error::Located<error::ErrorData>", "parse_error%d" % n)
            ex_.log("load_err", error=e)
            yield Some(Err(e))

    @skel.stub(ex, r"Lexer::(<.*>::)?from_char_stream$", "lexer construction -> opaque")
    def mk_lexer(ex, callee, args, rt):
        yield Opaque("Lexer", "file_lexer")

    @skel.stub(ex, r"Parser::(<.*>::)?from_lexer$", "Parser over the library file -> an iterator yielding the end, any statement, or any error (at most 2 statements)")
    def mk_parser(ex, callee, args, rt):
        yield IterObj("custom", next=parser_items)

    @skel.stub(ex, r"<.* as From<std::io::Error>>::from$", "io error -> scheme error")
    def from_io(ex, callee, args, rt):
        e = Lazy("error::Located<error::ErrorData>", "io_error")
        ex.log("load_err", error=e)
        yield e

    it = Lazy("interpreter::Interpreter<R>", "it")
    it.fields[1] = Adt("LibraryLoader", None, [reg])
    progdir = Lazy("std::option::Option<std::path::PathBuf>", "the_program_directory")        # set or not
    it.fields[4] = progdir                       # Interpreter.program_directory: where library files are looked up
    located = Adt("Located", None, [target, Opaque("location", "loc")])
    f = ex.fn_by_suffix("::get_library")
    ex.panic_hook = lambda info: chk.oblige(ex, unit, "no-panic", z3.BoolVal(False), inputs, replay)
    for rv in ex.run(f, [Ref(Cell(it)), located]):
        chk.path(unit)
        post = []
        # the old entries: same presence, same factory object
        for i in range(NL):
            k, p, c = reg.entries[i]
            post.append(z3.Implies(present[i], z3.And(p, z3.BoolVal(c.v is facts[i]))))
            post.append(z3.Implies(z3.And(z3.Not(present[i]), target_id != i), z3.Not(p)))
        # new entries: only for the requested name, only when it was not registered, only with the factory read for it
        parsed = [e for e in ex.events if e["kind"] == "parse_file"]
        was = z3.Or(*[z3.And(target_id == i, present[i]) for i in range(NL)])
        for (k, p, c) in reg.entries[n0:]:
            okk = isinstance(k, LibName)
            post.append(z3.BoolVal(okk))
            if okk:
                post.append(z3.Implies(p, z3.And(k.id == target_id, z3.Not(was))))
        for e in parsed:
            nm = e["name"]
            post.append(z3.BoolVal(isinstance(nm, LibName)) if not isinstance(nm, LibName) else nm.id == target_id)
        # the directory library files are looked up in is the program's: loading a library does not move it
        post.append(z3.BoolVal(it.fields.get(4) is progdir))
        errs = [e for e in ex.events if e["kind"] == "load_err"]
        news = [e for e in ex.events if e["kind"] == "new_library"]
        is_err = isinstance(rv, Adt) and rv.variant == "Err"
        post.append(z3.BoolVal(len(news) <= 1))
        if __import__("os").environ.get("VERIF_DEBUG_POST"):
            for i_, c_ in enumerate(post):
                if ex.ctx.check(z3.Not(c_)) == z3.sat:
                    print("   failing conjunct", i_, str(c_)[:200], "entries", [(repr(k), str(p_)[:30]) for (k, p_, c) in reg.entries])
        chk.oblige(ex, unit, "a load attempt leaves every other registry entry as it was and adds at most an entry for the requested name",
                   z3.And(*post), inputs, replay)


def run(chk):
    thorough = chk.tier == "thorough"
    NL = 4 if thorough else 3
    chk.bounds = {"in-progress set": "arbitrary subset of %d names plus a name outside it" % NL, "import attempt": "one import of a symbolic name, bare and wrapped in only/except/prefix/rename (two levels in the thorough tier); get_library returns any Ok or any Err"}
    chk.assumptions += [
        "mechanism level: with the invariant 'nothing is in progress between top-level import attempts' (obligation a) the outcome of an attempt cannot depend on earlier attempts; 'cyclic iff a cycle is reachable' follows from (b)+(c) by induction over get_library's call tree - that induction is an argument in DESIGN.md, the three obligations are machine-checked",
        "std HashSet modelled (per-name membership bit); library names are abstract ids with equality",
        "termination for arbitrary graphs, file lookup relative to the program directory and unreadable/malformed files are outside (filesystem)",
        "structural counterexamples are confirmed by native import-graph probes before they are reported",
    ]
    chk.run_probes("import graphs", graph_probe, chk.ws.runner("dev"), len(GRAPH_PROBES) + len(FILE_PROBES))
    chk.step("in-progress set", spec_in_progress, chk, NL, thorough)
    chk.step("eval_import marks", spec_eval_import_marks, chk, NL)
    chk.step("factory registry", spec_registry, chk, NL)
