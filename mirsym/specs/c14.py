"""C14 - library loading: outcome depends only on the graph (mechanism level).   (DESIGN.md section 4, C14)"""
import z3

from ..core import Adt, Lazy, Ref, Cell, SeqObj, MapObj, Opaque, IterObj, Unsupported
from ..harness import hexs
from ..models import Ok, Err, Some, NONE
from . import skel
from . import numlib as nl


class LibName:
    """abstract library name: equality = equality of a symbolic id"""

    def __init__(self, ident, label):
        self.id = ident
        self.label = label

    def __repr__(self):
        return "<libname %s>" % self.label


def lib(name, imports=(), body="(define v%s 1)", export=None):
    imps = "".join("(import (%s))" % i for i in imports)
    return (name, "(define-library (%s) %s (export v%s) (begin (define v%s 1)))" % (name, imps, name, name))


# (libraries, program, expected outcome kind per form)
GRAPH_PROBES = [
    # a failed import must not poison later attempts (the history clause)
    ([], "(import (nolib))\n(import (nolib))", ["ERR LibraryNotFound", "ERR LibraryNotFound"]),
    ([lib("good")], "(import (nolib))\n(import (good))\nvgood", ["ERR LibraryNotFound", "OK -", "OK I 1"]),
    # self-cycle, 2-cycle, 3-cycle
    ([lib("a", ["a"])], "(import (a))", ["ERR LibraryImportCyclic"]),
    ([lib("a", ["b"]), lib("b", ["a"])], "(import (a))\n(import (b))", ["ERR LibraryImportCyclic", "ERR LibraryImportCyclic"]),
    ([lib("a", ["b"]), lib("b", ["c"]), lib("c", ["a"])], "(import (a))", ["ERR LibraryImportCyclic"]),
    # diamond: a shared dependency reached by two paths is not a cycle
    ([lib("a", ["b", "c"]), lib("b", ["d"]), lib("c", ["d"]), lib("d")], "(import (a))\nva", ["OK -", "OK I 1"]),
    # the same library twice: in one declaration and in a later form
    ([lib("d")], "(import (d) (d))\n(import (d))\nvd", ["OK -", "OK -", "OK I 1"]),
    # a missing library below a healthy one: the underlying error, and afterwards everything still works
    ([lib("a", ["b"]), lib("b", ["zz"]), lib("d")], "(import (a))\n(import (a))\n(import (d))\nvd", ["ERR LibraryNotFound", "ERR LibraryNotFound", "OK -", "OK I 1"]),
    # a cycle reached after a healthy import of part of it
    ([lib("a", ["b"]), lib("b", ["a"]), lib("d")], "(import (d))\n(import (a))\n(import (d))", ["OK -", "ERR LibraryImportCyclic", "OK -"]),
    # nested import sets around the name go through the same bookkeeping
    ([lib("a", ["a"]), lib("d")], "(import (only (a) va))\n(import (prefix (d) p-))\np-vd", ["ERR LibraryImportCyclic", "OK -", "OK I 1"]),
    # cycles whose edges are import sets, not bare names
    ([("a", "(define-library (a) (import (only (b) vb)) (export va) (begin (define va 1)))"), ("b", "(define-library (b) (import (only (a) va)) (export vb) (begin (define vb 1)))")],
     "(import (a))", ["ERR LibraryImportCyclic"]),
    ([("a", "(define-library (a) (import (prefix (a) q-)) (export va) (begin (define va 1)))")], "(import (rename (a) (va vz)))", ["ERR LibraryImportCyclic"]),
    # a diamond visited three times, then once more
    ([lib("a", ["b", "c", "d"]), lib("b", ["d"]), lib("c", ["d"]), lib("d")], "(import (a))\n(import (d))\nvd", ["OK -", "OK -", "OK I 1"]),
]
_PROBE = {}


def graph_probe(nat):
    if id(nat) in _PROBE:
        return _PROBE[id(nat)]
    res = (False, "native import-graph probes (failed import then retry, self/2/3-cycles, diamond, repeated import, missing dependency, cycle after healthy import, nested import sets) all give the expected outcomes")
    for libs, prog, want in GRAPH_PROBES:
        cmd = "libs 0 %d %s %s" % (len(libs), " ".join("%s %s" % (hexs(n), hexs(s)) for n, s in libs), hexs(prog))
        out = nat.cmd(cmd).split(" ;;; ")[0]
        got = [" ".join(f.split()[:2]) if f.strip().startswith("ERR") else f.strip() for f in out.split(" ;; ")]
        if got != want:
            res = (True, "libraries %s, program %r: outcomes %s (expected %s)" % ([n for n, _ in libs], prog, got, want))
            break
    _PROBE[id(nat)] = res
    return res


def spec_in_progress(chk, NL, DEPTH2=False):
    ex = chk.executor(True)
    nat = chk.ws.runner("dev")
    unit = "Interpreter::eval_import_set around a library name (get_library stubbed)"
    chk.region_ns = {}
    replay = lambda vals: graph_probe(nat)
    # in-progress set: arbitrary subset of NL known names
    names = [LibName(z3.IntVal(i), "L%d" % i) for i in range(NL)]
    inset = [z3.Bool("in_progress_%d" % i) for i in range(NL)]
    st = MapObj("imported_library", is_set=True)
    for n, b in zip(names, inset):
        st.entries.append((n, b, Cell(None)))
    target_id = z3.Int("target")
    ex.ctx.add(target_id >= 0, target_id <= NL)          # NL = a name not among the known ones
    target = LibName(target_id, "T")
    ex.key_eq_hook = lambda ex_, a, b: (a.id == b.id) if isinstance(a, LibName) and isinstance(b, LibName) else z3.BoolVal(a is b)
    target_in = z3.Or(*[z3.And(target_id == i, inset[i]) for i in range(NL)])
    inputs = {"target": target_id}
    for i in range(NL):
        inputs["in%d" % i] = inset[i]

    def member_now(ident):
        return z3.Or(*[z3.And(k.id == ident, p) for (k, p, c) in st.entries]) if st.entries else z3.BoolVal(False)

    @skel.stub(ex, r"::get_library$", "get_library -> any Ok(library) or any Err; logged with the in-progress membership of the requested name at that moment")
    def get_library(ex, callee, args, rt):
        nm = ex.deref(args[1])
        key = nm.fields[0] if isinstance(nm, Adt) else nm
        ex.log("get_library", name=key, in_progress=member_now(key.id))
        yield Ok(Lazy("interpreter::library::Library<R>", "the_library"))
        e = skel.err_value("from get_library")
        ex.log("get_library_err", error=e)
        yield Err(e)

    @skel.stub(ex, r"Library::<R>::iter_definitions$|::iter_definitions$", "Library::iter_definitions -> a (here empty) sequence; the definitions are C12's subject")
    def iter_defs(ex, callee, args, rt):
        yield IterObj("seq", seq=SeqObj("defs", "?", [], 0, 0), pos=0, by_ref=True, mut=False)

    @skel.stub(ex, r"::file_library_factory$|::new_library$", "file_library_factory / new_library -> any Ok or any Err (filesystem and library evaluation are outside)")
    def loader(ex, callee, args, rt):
        ok_ty = "LibraryFactory" if callee.endswith("file_library_factory") else "interpreter::library::Library<R>"
        yield Ok(Lazy(ok_ty, "loaded"))
        e = skel.err_value("from " + callee.rsplit("::", 1)[1])
        ex.log("get_library_err", error=e)
        yield Err(e)

    ex.key_eq_hook = lambda ex_, a, b: (ex_.deref(a).id == ex_.deref(b).id) if isinstance(ex_.deref(a), LibName) and isinstance(ex_.deref(b), LibName) else z3.BoolVal(ex_.deref(a) is ex_.deref(b))
    it = Lazy("interpreter::Interpreter<R>", "it")
    it.fields[2] = st
    lib_name = Adt("Located", None, [target, Opaque("location", "loc")])
    direct = Adt("Located", None, [Adt("ImportSetBody", "Direct", [lib_name]), Opaque("location", "loc2")])

    def wrap_set(kind, inner):
        from ..core import StrVal
        ids = SeqObj("ids_" + kind, "String", [Cell(StrVal("va")), Cell(StrVal("vb"))], 2, 2)
        if kind in ("Only", "Except"):
            body = Adt("ImportSetBody", kind, [Ref(Cell(inner)), ids])
        elif kind == "Prefix":
            body = Adt("ImportSetBody", "Prefix", [Ref(Cell(inner)), StrVal("p-")])
        else:
            from ..core import Tup
            pairs = SeqObj("renames", "(String, String)", [Cell(Tup([StrVal("va"), StrVal("vc")]))], 1, 1)
            body = Adt("ImportSetBody", "Rename", [Ref(Cell(inner)), pairs])
        return Adt("Located", None, [body, Opaque("location", "loc_" + kind)])

    shapes = [("Direct", direct)] + [(k, wrap_set(k, direct)) for k in ("Only", "Except", "Prefix", "Rename")]
    if DEPTH2:
        shapes += [("%s(%s)" % (a, b), wrap_set(a, wrap_set(b, direct))) for a in ("Only", "Prefix", "Rename") for b in ("Only", "Except", "Prefix", "Rename")]
    f = ex.fn_by_suffix("::eval_import_set")
    ex.panic_hook = lambda info: chk.oblige(ex, unit, "no-panic", z3.BoolVal(False), inputs, replay)
    for shape, iset in shapes:
      for rv in ex.run(f, [Ref(Cell(it)), Ref(Cell(iset))]):
        chk.path(unit)
        evs = [e for e in ex.events if e["kind"] == "get_library"]
        gerr = [e for e in ex.events if e["kind"] == "get_library_err"]
        post = []
        # (a) the set is restored on EVERY exit
        for i in range(NL):
            post.append(member_now(z3.IntVal(i)) == inset[i])
        post.append(member_now(z3.IntVal(NL)) == z3.BoolVal(False))
        # (b) cyclic error <=> the name was in progress on entry; then get_library is not called
        is_err = isinstance(rv, Adt) and rv.variant == "Err"
        cyc = is_err and not isinstance(rv.fields[0], Opaque) and nl.err_kind(ex, rv.fields[0]) == "LibraryImportCyclic"
        post.append(z3.BoolVal(cyc) == target_in)
        post.append(z3.Implies(target_in, z3.BoolVal(not evs)))
        post.append(z3.Implies(z3.Not(target_in), z3.BoolVal(len(evs) == 1)))
        # (c) while get_library runs the name is in progress
        for e in evs:
            post.append(e["in_progress"])
            post.append(e["name"].id == target_id)
        # the underlying error is passed on unchanged
        if gerr:
            post.append(z3.BoolVal(is_err and rv.fields[0] is gerr[0]["error"]))
        elif not cyc:
            post.append(z3.BoolVal(isinstance(rv, Adt) and rv.variant == "Ok"))
        chk.oblige(ex, unit, "the in-progress set is restored on every exit (Ok / underlying error / cyclic); cyclic error iff the name was in progress, then no load is attempted; the name is in progress while it loads",
                   z3.And(*post), inputs, replay)


def run(chk):
    thorough = chk.tier == "thorough"
    NL = 4 if thorough else 3
    chk.bounds = {"in-progress set": "arbitrary subset of %d names plus a name outside it" % NL, "import attempt": "one import of a symbolic name, bare and wrapped in only/except/prefix/rename (two levels in the thorough tier); get_library returns any Ok or any Err"}
    chk.assumptions += [
        "mechanism level: with the invariant 'nothing is in progress between top-level import attempts' (obligation a) the outcome of an attempt cannot depend on earlier attempts; 'cyclic iff a cycle is reachable' follows from (b)+(c) by induction over get_library's call tree - that induction is an argument in DESIGN.md, the three obligations are machine-checked",
        "std HashSet modelled (per-name membership bit); library names are abstract ids with equality",
        "termination for arbitrary graphs, file lookup relative to the program directory and unreadable/malformed files are outside (filesystem)",
        "structural counterexamples are confirmed by native import-graph probes before they are reported",
    ]
    chk.run_probes("import graphs", graph_probe, chk.ws.runner("dev"), len(GRAPH_PROBES))
    chk.step("in-progress set", spec_in_progress, chk, NL, thorough)
