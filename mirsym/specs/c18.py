"""C18 - the REPL's completeness test agrees with the reader (kernel: repl::check_bracket_closed, engine Kani/CBMC) and the
REPL loop submits exactly the text entered since the last submission, exactly when it passes that test (c18loop.py, engine mirsym)."""
import json
import os

from ..harness import hexs, unhexs, Broken
from ..kani import run_kani

ALPHABET = ['(', ')', '"', ';', '\n', '\r', '#', '\\', '|', "'", 'a', '1', ' ']


def text_from_cex(cex, N):
    """kani::any() calls in harness order: len (usize, 8 bytes LE), then one u8 per buffer position"""
    if not cex:
        return None
    ln = int.from_bytes(bytes(cex[0]), "little")
    ks = [v[0] if v else 0 for v in cex[1:1 + N]]
    ks += [10] * (N - len(ks))
    return "".join(ALPHABET[k] for k in ks[:ln])


def run(chk):
    thorough = chk.tier == "thorough"
    N = int(os.environ.get("VERIF_C18_N", "16" if thorough else "8"))
    sweep_len = 6 if thorough else 5
    chk.bounds = {"repl loop": "3 lines of <= 1 character%s over the alphabet ( ) \" ; # \\ | a (a = every other character), every evaluation outcome" % (" and 2 lines of <= 2 characters" if thorough else ""),
                  "text length": "<= %d characters over the 13-symbol alphabet %r" % (N, "".join(ALPHABET)),
                  "unwind": N + 2, "oracle validation": "reference model == real Lexer on every string of length <= %d over the alphabet" % sweep_len}
    chk.assumptions += [
        "alphabet abstraction: texts over ( ) \" ; LF CR # \\ | ' a 1 space; a second harness shows check_bracket_closed treats every other character like 'a' (the reader does not: digits, signs, dots, commas etc. are outside the bound)",
        "texts the reader rejects with a lexical error are excluded (the property speaks of lists the lines opened)",
        "the loop run_with_interpreter is checked by the MIR executor with the line editor, the evaluator and printing replaced by logging stubs (unit 'repl loop'): %d lines of <= %d characters over ( ) \" ; # \\ | a; what is printed for a value, history and ctrl-c handling are outside; counterexamples are replayed by driving the real binary over a pipe against the reference protocol" % ((3, 1)),
        "Kani models the dev profile; CBMC/cadical trusted",
    ]
    nat = chk.ws.runner("dev")
    # 1. validate the oracle against the real lexer (this decides nothing, it guards the reference model)
    out = nat.cmd("c18sweep %d" % sweep_len).split()
    unit = "repl::check_bracket_closed"
    if out[:3] != ["OK", "SWEEP", "1"]:
        txt = unhexs(out[5]) if len(out) > 5 else "?"
        chk.inconclusive.append("the C18 reference model disagrees with the real Lexer on %r (after %s strings): oracle invalid" % (txt, out[3] if len(out) > 3 else "?"))
        return
    chk.validated += int(out[3])
    chk.notes.append("reference model agrees with the real Lexer on all %s strings of length <= %d (%s accepted by the reader)" % (out[3], sweep_len, out[4]))
    # 2. the solver run
    u = chk.unit(unit)
    res = run_kani(chk.ws, "repl.rs", "c18_harness.rs", "c18_completeness_test_agrees_with_reader", {"VERIF_N": N, "VERIF_UNWIND": N + 2},
                   timeout_s=3000 if thorough else 600)
    chk.kani = {"main": {k: v for k, v in res.items() if k != "log_tail"}}
    chk.obligations += 1
    u["obligations"] += 1
    chk.solver_s += res.get("solver_time_s", 0.0)
    chk.solver_checks += max(1, res.get("checks", 0) or 0)      # CBMC properties decided by the SAT back end
    chk.paths += 1
    u["paths"] += 1
    if res["status"] == "success":
        if res.get("covers_satisfied", 0) < res.get("covers", 1):
            chk.inconclusive.append("kani: reachability witness (kani::cover!) not satisfied - vacuous harness")
        else:
            chk.witnesses += res.get("covers_satisfied", 0)
            u["witnesses"] += res.get("covers_satisfied", 0)
            chk.discharged += 1
            u["discharged"] += 1
    elif res["status"] == "failed":
        if res.get("unwinding_failed"):
            chk.inconclusive.append("kani: unwinding assertion failed (bound too small) - no verdict")
        text = text_from_cex(res["cex"], N)
        if text is None:
            chk.inconclusive.append("kani reported a failure but no concrete playback values could be read: " + "; ".join(res.get("failed_descriptions", [])))
        else:
            got = nat.cmd("bracket %s" % hexs(text)).split()[-1] == "1"
            tk = nat.cmd("tokens %s" % hexs(text)).split()
            lex_ok, depth = tk[2] == "1", int(tk[3])
            reproduced = lex_ok and (got != (depth <= 0))
            detail = "text %r: check_bracket_closed=%s, real Lexer: ok=%s depth=%d => complete=%s" % (text, got, lex_ok, depth, depth <= 0)
            rec = {"unit": unit, "obligation": "completeness-test == all opened lists closed (reader's token stream)", "inputs": {"text": text},
                   "replay": detail, "reproduced": reproduced, "description": "counterexample from Kani concrete playback"}
            if reproduced:
                chk.violations.append(rec)
            else:
                chk.inconclusive.append("kani counterexample does not reproduce natively: " + detail)
    else:
        chk.inconclusive.append("kani did not finish (status error/timeout/oom): " + res["log_tail"][-400:])
    chk.samples.append({"unit": unit, "obligation": "for all len<=%d, all texts over the alphabet accepted by the reader: check_bracket_closed(text) == (token depth <= 0)" % N,
                        "verdict": res["status"], "kani_checks": res.get("checks"), "solver_time_s": res.get("solver_time_s")})
    # 3. alphabet abstraction harness
    res2 = run_kani(chk.ws, "repl.rs", "c18_harness.rs", "c18_other_characters_behave_like_a_letter", {"VERIF_N": N, "VERIF_UNWIND": N + 2}, timeout_s=600)
    chk.kani["alphabet"] = {k: v for k, v in res2.items() if k != "log_tail"}
    chk.obligations += 1
    u["obligations"] += 1
    chk.solver_s += res2.get("solver_time_s", 0.0)
    chk.solver_checks += max(1, res2.get("checks", 0) or 0)
    chk.paths += 1
    if res2["status"] == "success":
        chk.discharged += 1
        u["discharged"] += 1
    elif res2["status"] == "failed":
        chk.notes.append("alphabet abstraction harness failed: some non-special character changes the verdict of check_bracket_closed: %s" % res2.get("failed_descriptions"))
        chk.inconclusive.append("alphabet abstraction of check_bracket_closed does not hold; the bound must be restated")
    else:
        chk.inconclusive.append("kani (alphabet harness) did not finish: " + res2["log_tail"][-300:])
    chk.samples.append({"unit": unit, "obligation": "for every char c outside the special set and every alphabet char x: verdict(x c x) == verdict(x a x)", "verdict": res2["status"]})
    chk.encoded.add("repl::check_bracket_closed (compiled code under Kani/CBMC)")
    from . import c18loop
    chk.step("repl loop", c18loop.spec_repl_loop, chk, 3, 1)
    if thorough:
        chk.step("repl loop, two lines of two characters", c18loop.spec_repl_loop, chk, 2, 2)
    chk.notes.append("kani: %s" % json.dumps(chk.kani))
