"""C10 - numeric comparison is the mathematical order.   (DESIGN.md section 4, C10)"""
import random
from fractions import Fraction

import numpy as np
import z3

from ..core import Adt, Lazy, Ref, Cell, Unsupported
from ..mir import ENUMS
from . import numlib as nl
from .numlib import NumIn, ValIn, B15
from .c09 import run_concrete

I32MIN, I32MAX = -2**31, 2**31 - 1


# ------------------------------------------------------------------------------------------------ reference
def py_cmp(x, y):
    """'Less' | 'Equal' | 'Greater' | 'None' by the property: exact/exact in Q, otherwise after conversion to binary32"""
    if x[0] != "F" and y[0] != "F":
        a, b = nl.py_value(x), nl.py_value(y)
    else:
        a, b = nl.py_to_f32(x), nl.py_to_f32(y)
        if np.isnan(a) or np.isnan(b):
            return "None"
    return "Less" if a < b else ("Equal" if a == b else "Greater")


PRED = {"=": ("Equal",), "<": ("Less",), ">": ("Greater",), "<=": ("Less", "Equal"), ">=": ("Greater", "Equal")}
BUILTIN = {"=": "equals", "<": "less", ">": "greater", "<=": "less_equal", ">=": "greater_equal"}


def sym_order(x, y):
    """(lt, eq, gt, unordered) as z3 terms, by the property's definition"""
    both_exact = z3.And(x.exact, y.exact)
    L, R = x.n * y.d, y.n * x.d
    pos = (x.d > 0) == (y.d > 0)
    fx, fy = x.as_fp(), y.as_fp()
    lt = z3.If(both_exact, z3.If(pos, L < R, L > R), z3.fpLT(fx, fy))
    eq = z3.If(both_exact, L == R, z3.fpEQ(fx, fy))
    gt = z3.If(both_exact, z3.If(pos, L > R, L < R), z3.fpGT(fx, fy))
    un = z3.And(z3.Not(both_exact), z3.Or(z3.fpIsNaN(fx), z3.fpIsNaN(fy)))
    return lt, eq, gt, un


def cross_overflow(x, y):
    L, R = x.n * y.d, y.n * x.d
    return z3.Or(L < I32MIN, L > I32MAX, R < I32MIN, R > I32MAX)


def spec_partial_cmp(chk, overflow_checks=True, profile="dev"):
    ex = chk.executor(overflow_checks)
    nat = chk.ws.runner(profile)
    x, y = NumIn(ex, "x"), NumIn(ex, "y")
    ex.ctx.add(x.valid(), y.valid())
    f = ex.resolve("<values::Number<R> as PartialOrd>::partial_cmp")
    unit = "Number::partial_cmp" + ("" if overflow_checks else " [release MIR]")
    inputs = dict(x.inputs("x"))
    inputs.update(y.inputs("y"))
    both_exact = z3.And(x.exact, y.exact)
    chk.region_ns = dict(x.region_ns("x"))
    chk.region_ns.update(y.region_ns("y"))
    chk.region_ns.update({"cross_product_leaves_i32": cross_overflow(x, y), "both_exact": both_exact})
    lt, eq, gt, un = sym_order(x, y)

    def desc(vals):
        return "(cmp %s %s)" % (nl.tok_number(nl.num_from_model(vals, "x")), nl.tok_number(nl.num_from_model(vals, "y")))

    def replay_value(vals):
        cx, cy = nl.num_from_model(vals, "x"), nl.num_from_model(vals, "y")
        out = nat.cmd("num2 cmp %s %s" % (nl.tok_number(cx), nl.tok_number(cy)))
        exp = py_cmp(cx, cy)
        if out.startswith(("PANIC", "ABORT")):
            return False, desc(vals) + " native panicked"
        got = out.split()[2]
        return got != exp, "%s [%s build]: native %s, mathematical order %s" % (desc(vals), profile, got, exp)

    def replay_panic(vals):
        cx, cy = nl.num_from_model(vals, "x"), nl.num_from_model(vals, "y")
        out = nat.cmd("num2 cmp %s %s" % (nl.tok_number(cx), nl.tok_number(cy)))
        return out.startswith(("PANIC", "ABORT")), "%s [%s build]: %s (the property promises an answer for all exact operands)" % (desc(vals), profile, out[:50])

    def on_panic(info):
        chk.unit(unit)["panic_outcomes"] += 1
        chk.oblige(ex, unit, "answers-for-all-exact-operands(no panic)", z3.BoolVal(False), inputs, replay_panic, pre=both_exact)

    ex.panic_hook = on_panic
    for rv in ex.run(f, [Ref(Cell(x.obj)), Ref(Cell(y.obj))]):
        chk.path(unit)
        if rv.variant == "None":
            post = un
        else:
            post = {"Less": lt, "Equal": eq, "Greater": gt}[rv.fields[0].variant]
        chk.oblige(ex, unit, "agrees-with-mathematical-order", post, inputs, replay_value)
    return ex


def spec_eq(chk, overflow_checks=True, profile="dev"):
    ex = chk.executor(overflow_checks)
    nat = chk.ws.runner(profile)
    x, y = NumIn(ex, "x"), NumIn(ex, "y")
    ex.ctx.add(x.valid(), y.valid())
    f = ex.resolve("<values::Number<R> as PartialEq>::eq")
    unit = "Number::eq" + ("" if overflow_checks else " [release MIR]")
    inputs = dict(x.inputs("x"))
    inputs.update(y.inputs("y"))
    both_exact = z3.And(x.exact, y.exact)
    chk.region_ns = dict(x.region_ns("x"))
    chk.region_ns.update(y.region_ns("y"))
    chk.region_ns.update({"cross_product_leaves_i32": cross_overflow(x, y), "both_exact": both_exact})
    lt, eq, gt, un = sym_order(x, y)

    def replay_value(vals):
        cx, cy = nl.num_from_model(vals, "x"), nl.num_from_model(vals, "y")
        out = nat.cmd("num2 eq %s %s" % (nl.tok_number(cx), nl.tok_number(cy)))
        if out.startswith(("PANIC", "ABORT")):
            return False, "native panicked"
        got = out.split()[2] == "1"
        exp = py_cmp(cx, cy) == "Equal"
        return got != exp, "(= %s %s) [%s build]: native %s, mathematically %s" % (nl.tok_number(cx), nl.tok_number(cy), profile, got, exp)

    def replay_panic(vals):
        cx, cy = nl.num_from_model(vals, "x"), nl.num_from_model(vals, "y")
        out = nat.cmd("num2 eq %s %s" % (nl.tok_number(cx), nl.tok_number(cy)))
        return out.startswith(("PANIC", "ABORT")), "(= %s %s) [%s build]: %s" % (nl.tok_number(cx), nl.tok_number(cy), profile, out[:50])

    ex.panic_hook = lambda info: chk.oblige(ex, unit, "answers-for-all-exact-operands(no panic)", z3.BoolVal(False), inputs, replay_panic, pre=both_exact)
    for rv in ex.run(f, [Ref(Cell(x.obj)), Ref(Cell(y.obj))]):
        chk.path(unit)
        chk.oblige(ex, unit, "agrees-with-mathematical-equality", rv == eq, inputs, replay_value)
    return ex


def spec_nary(chk, name, N, allow=("Integer", "Rational", "Real")):
    """the builtin predicate over 0..N numbers = conjunction over adjacent pairs of the binary oracle"""
    ex = chk.executor(True)
    nat = chk.ws.runner("dev")
    vals = [ValIn(ex, "v%d" % k, allow) for k in range(N)]
    ln = z3.Int("argc")
    ex.ctx.add(ln >= 0, ln <= N)
    for v in vals:
        ex.ctx.add(v.is_number, v.num.valid())
    seq = nl.seq_of(ex, "args", [v.obj for v in vals], ln)
    f = ex.resolve(BUILTIN[name])
    unit = "builtin (%s x ...) %s" % (name, "exact operands" if "Real" not in allow else ("integer/real operands" if "Rational" not in allow else "operands of any exactness"))
    inputs = {"argc": ln}
    chk.region_ns = {}
    for k, v in enumerate(vals):
        inputs.update(v.num.inputs("v%d" % k))
        chk.region_ns.update(v.num.region_ns("v%d" % k))
    # integers and reals are compared directly or after conversion: no cross products, so the whole i32 range is claimed
    small = z3.And(*[v.num.within(B15) for v in vals]) if "Rational" in allow else z3.BoolVal(True)
    no_nan = z3.And(*[z3.Not(z3.fpIsNaN(v.num.as_fp())) for v in vals]) if "Real" in allow else z3.BoolVal(True)
    conj = []
    for k in range(N - 1):
        lt, eq, gt, un = sym_order(vals[k].num, vals[k + 1].num)
        holds = {"=": eq, "<": lt, ">": gt, "<=": z3.Or(lt, eq), ">=": z3.Or(gt, eq)}[name]
        conj.append(z3.Or(ln <= k + 1, holds))
    expected = z3.And(*conj) if conj else z3.BoolVal(True)

    def replay_value(vv):
        nums = [nl.num_from_model(vv, "v%d" % k) for k in range(vv["argc"])]
        out = nat.cmd("builtin %s %d %s" % (name.encode().hex(), len(nums), " ".join(nl.tok_number(n) for n in nums)))
        exp = all(py_cmp(a, b) in PRED[name] for a, b in zip(nums, nums[1:]))
        t = out.split()
        d = "(%s %s): native %s, conjunction of adjacent pairs %s" % (name, " ".join(nl.tok_number(n) for n in nums), " ".join(t[:3]), exp)
        if t[0] != "OK":
            return t[0] == "ERR", d
        return (t[2] == "1") != exp, d

    ex.panic_hook = lambda info: chk.oblige(ex, unit, "no-panic-below-2^15", z3.BoolVal(False), inputs, lambda vv: (False, "n/a"), pre=small)
    for rv in ex.run(f, [seq]):
        chk.path(unit)
        if rv.variant == "Err":
            chk.oblige(ex, unit, "numbers-are-compared-not-rejected", z3.BoolVal(False), inputs, replay_value)
            continue
        val = rv.fields[0]
        if not (isinstance(val, Adt) and val.variant == "Boolean"):
            raise Unsupported("predicate result is not a boolean: %r" % (val,))
        chk.oblige(ex, unit, "n-ary = conjunction of adjacent pairs", val.fields[0] == expected, inputs, replay_value, pre=z3.And(small, no_nan))
    return ex


STRUCT_GRID = [("I", 1), ("I", 2), ("I", 3), ("I", 16777217), ("F", 0x4b800000), ("I", 16777216), ("Q", 1, 2), ("F", 0x40200000), ("I", -1)]


def nary_probe_battery(nat, name):
    """every triple and quadruple over a small grid with non-transitive members (16777217 = 16777216. = 16777216 in
    binary32): the builtin against the conjunction of adjacent pairs. Returns (deviates, detail)."""
    import itertools
    n = 0
    for k in (3, 4):
        grid = STRUCT_GRID if k == 3 else STRUCT_GRID[:6]
        for nums in itertools.product(grid, repeat=k):
            out = nat.cmd("builtin %s %d %s" % (name.encode().hex(), len(nums), " ".join(nl.tok_number(x) for x in nums)))
            exp = all(py_cmp(a, b) in PRED[name] for a, b in zip(nums, nums[1:]))
            t = out.split()
            n += 1
            if t[0] != "OK" or (t[2] == "1") != exp:
                return True, "(%s %s): native %s, conjunction of adjacent pairs %s" % (name, " ".join(nl.tok_number(x) for x in nums), " ".join(t[:3]), exp)
    return False, "%d probe tuples agree" % n


def spec_nary_structure(chk, name, N=4):
    """which pairs does the n-ary predicate compare? The binary comparison of Number (decided against the mathematical order
    by the partial_cmp / eq units) is replaced by an arbitrary relation, one symbolic answer per ordered pair of argument
    positions; the result must be the conjunction of the answers for the ADJACENT pairs - for every relation, transitive or
    not (binary32 conversion makes = and < non-transitive across exactness), every argument count up to N."""
    from .skel import stub
    from ..models import Some, NONE
    ex = chk.executor(True)
    nat = chk.ws.runner("dev")
    vals = [ValIn(ex, "v%d" % k) for k in range(N)]
    ln = z3.Int("argc")
    ex.ctx.add(ln >= 0, ln <= N)
    for v in vals:
        ex.ctx.add(v.is_number)
    seq = nl.seq_of(ex, "args", [v.obj for v in vals], ln)
    f = ex.resolve(BUILTIN[name])
    unit = "builtin (%s x ...): pairs compared" % name
    inputs = {"argc": ln}
    answers = {}

    def index_of(a):
        o = ex.deref(a)
        for k, v in enumerate(vals):
            if o is v.num.obj:
                return k
        raise Unsupported("comparison operand is not an argument of the predicate: %r" % (o,))

    def answer(i, j):
        if (i, j) not in answers:
            o = z3.Int("ord_%d_%d" % (i, j))          # 0 Less, 1 Equal, 2 Greater, 3 unordered
            ex.ctx.add_global(z3.And(o >= 0, o <= 3))
            answers[(i, j)] = o
            inputs["ord_%d_%d" % (i, j)] = o
        return answers[(i, j)]

    @stub(ex, r"^<values::Number<R> as Partial(Ord|Eq)>::\w+$", "Number comparison = arbitrary relation over argument positions (one answer per ordered pair)")
    def cmp_stub(ex_, callee, args, rt):
        i, j = index_of(args[0]), index_of(args[1])
        o = answer(i, j)
        ex_.log("compare", i=i, j=j)
        m = callee.rsplit("::", 1)[1]
        if m == "partial_cmp":
            for b in ex_.branches([o == 0, o == 1, o == 2, o == 3]):
                yield Some(Adt("Ordering", ("Less", "Equal", "Greater")[b], [])) if b < 3 else NONE
            return
        yield {"eq": o == 1, "ne": o != 1, "lt": o == 0, "le": z3.Or(o == 0, o == 1), "gt": o == 2, "ge": z3.Or(o == 2, o == 1)}[m]

    for i in range(N - 1):
        answer(i, i + 1)
    holds = lambda o: {"=": o == 1, "<": o == 0, ">": o == 2, "<=": z3.Or(o == 0, o == 1), ">=": z3.Or(o == 2, o == 1)}[name]
    expected = z3.And(*[z3.Or(ln <= k + 1, holds(answers[(k, k + 1)])) for k in range(N - 1)])
    battery = {}

    def replay(vv):
        if "r" not in battery:
            battery["r"] = nary_probe_battery(nat, name)
        return battery["r"]

    chk.run_probes(unit, lambda nat_: replay(None), nat, 9 ** 3 + 6 ** 4)
    for rv in ex.run(f, [seq]):
        chk.path(unit)
        if rv.variant == "Err":
            chk.oblige(ex, unit, "numbers-are-compared-not-rejected", z3.BoolVal(False), inputs, replay)
            continue
        val = rv.fields[0]
        if not (isinstance(val, Adt) and val.variant == "Boolean"):
            raise Unsupported("predicate result is not a boolean: %r" % (val,))
        chk.oblige(ex, unit, "result = conjunction of the answers for adjacent pairs", val.fields[0] == expected, dict(inputs), replay)
    return ex


def spec_extreme(chk, name, N, allow=("Integer", "Rational", "Real")):
    ex = chk.executor(True)
    nat = chk.ws.runner("dev")
    vals = [ValIn(ex, "v%d" % k, allow) for k in range(N)]
    ln = z3.Int("argc")
    ex.ctx.add(ln >= 1, ln <= N)
    for v in vals:
        ex.ctx.add(v.is_number, v.num.valid())
    seq = nl.seq_of(ex, "args", [v.obj for v in vals], ln)
    f = ex.resolve("base::" + name)
    unit = "builtin (%s x ...) %s" % (name, "exact operands" if "Real" not in allow else ("integer/real operands" if "Rational" not in allow else "operands of any exactness"))
    inputs = {"argc": ln}
    chk.region_ns = {}
    for k, v in enumerate(vals):
        inputs.update(v.num.inputs("v%d" % k))
        chk.region_ns.update(v.num.region_ns("v%d" % k))
    small = z3.And(*[v.num.within(B15) for v in vals])
    no_nan = z3.And(*[z3.Not(z3.fpIsNaN(v.num.as_fp())) for v in vals]) if "Real" in allow else z3.BoolVal(True)
    all_exact = z3.And(*[z3.Or(ln <= k, v.num.exact) for k, v in enumerate(vals)])

    def replay_value(vv):
        nums = [nl.num_from_model(vv, "v%d" % k) for k in range(vv["argc"])]
        out = nat.cmd("builtin %s %d %s" % (name.encode().hex(), len(nums), " ".join(nl.tok_number(n) for n in nums)))
        t = out.split(" ;;")[0].split()
        d = "(%s %s): native %s" % (name, " ".join(nl.tok_number(n) for n in nums), " ".join(t[:4]))
        if t[0] != "OK":
            return t[0] == "ERR", d
        got = nl.parse_native_number(t[1:])
        anyreal = any(n[0] == "F" for n in nums)
        if anyreal != (got[0] == "F"):
            return True, d + " (exactness: inexact iff some argument is inexact)"
        want = "Greater" if name == "max" else "Less"
        # the result must be numerically extreme and numerically equal to some argument
        extreme = all(py_cmp(got, n) in (want, "Equal") for n in nums)
        member = any(py_cmp(got, n) == "Equal" for n in nums)
        return not (extreme and member), d + " (extreme=%s, equals-an-argument=%s)" % (extreme, member)

    ex.panic_hook = lambda info: chk.oblige(ex, unit, "no-panic-below-2^15", z3.BoolVal(False), inputs, lambda vv: (False, "n/a"), pre=small)
    for rv in ex.run(f, [seq]):
        chk.path(unit)
        if rv.variant == "Err":
            chk.oblige(ex, unit, "numbers-are-compared-not-rejected", z3.BoolVal(False), inputs, replay_value)
            continue
        val = rv.fields[0]
        for kind, rn, rd, rr in nl.number_cases(ex, val.fields[0]):
            _extreme_obligations(chk, ex, unit, name, kind, rn, rd, rr, vals, ln, inputs, replay_value, small, no_nan, all_exact)
    return ex


def _extreme_obligations(chk, ex, unit, name, kind, rn, rd, rr, vals, ln, inputs, replay_value, small, no_nan, all_exact):
    if True:
        if kind == "Real":
            chk.oblige(ex, unit, "exact-arguments-give-exact-extreme", z3.BoolVal(False), inputs, replay_value, pre=all_exact)
            conds = []
            member = []
            for k, v in enumerate(vals):
                fv = v.num.as_fp()
                conds.append(z3.Or(ln <= k, z3.fpGEQ(rr, fv) if name == "max" else z3.fpLEQ(rr, fv)))
                member.append(z3.And(ln > k, z3.fpEQ(rr, fv)))
            chk.oblige(ex, unit, "inexact-extreme-of-converted-arguments", z3.And(z3.And(*conds), z3.Or(*member)), inputs, replay_value,
                       pre=z3.And(small, no_nan, z3.Not(all_exact)))
        else:
            chk.oblige(ex, unit, "inexact-if-any-argument-inexact", z3.BoolVal(False), inputs, replay_value, pre=z3.Not(all_exact))
            conds = []
            member = []
            for k, v in enumerate(vals):
                n, d = v.num.n, v.num.d
                L, R = rn * d, n * rd
                pos = (rd > 0) == (d > 0)
                ge = z3.If(pos, L >= R, L <= R)
                le = z3.If(pos, L <= R, L >= R)
                conds.append(z3.Or(ln <= k, ge if name == "max" else le))
                member.append(z3.And(ln > k, L == R))
            chk.oblige(ex, unit, "exact-extreme-argument", z3.And(rd != 0, z3.And(*conds), z3.Or(*member)), inputs, replay_value, pre=z3.And(small, all_exact))


def spec_eqv(chk):
    ex = chk.executor(True)
    nat = chk.ws.runner("dev")
    x, y = NumIn(ex, "x"), NumIn(ex, "y")
    ex.ctx.add(x.valid(), y.valid())
    f = ex.resolve("eqv")
    unit = "builtin (eqv? x y) on numbers"
    inputs = dict(x.inputs("x"))
    inputs.update(y.inputs("y"))
    chk.region_ns = dict(x.region_ns("x"))
    chk.region_ns.update(y.region_ns("y"))
    both_exact = z3.And(x.exact, y.exact)
    chk.region_ns["both_exact"] = both_exact
    lt, eq, gt, un = sym_order(x, y)
    expected = z3.And(x.exact == y.exact, eq)
    small = z3.And(x.within(B15), y.within(B15))
    seq = nl.seq_of(ex, "args", [Adt("Value", "Number", [x.obj]), Adt("Value", "Number", [y.obj])], 2)

    def replay_value(vv):
        cx, cy = nl.num_from_model(vv, "x"), nl.num_from_model(vv, "y")
        out = nat.cmd("builtin %s 2 %s %s" % ("eqv?".encode().hex(), nl.tok_number(cx), nl.tok_number(cy)))
        t = out.split()
        exp = ((cx[0] == "F") == (cy[0] == "F")) and py_cmp(cx, cy) == "Equal"
        d = "(eqv? %s %s): native %s, same exactness and numerically equal: %s" % (nl.tok_number(cx), nl.tok_number(cy), " ".join(t[:3]), exp)
        if t[0] != "OK":
            return False, d
        return (t[2] == "1") != exp, d

    ex.panic_hook = lambda info: chk.oblige(ex, unit, "no-panic-below-2^15", z3.BoolVal(False), inputs, lambda vv: (False, "n/a"), pre=small)
    for rv in ex.run(f, [seq]):
        chk.path(unit)
        if rv.variant == "Err":
            chk.oblige(ex, unit, "eqv-answers", z3.BoolVal(False), inputs, replay_value)
            continue
        val = rv.fields[0]
        b = val.fields[0]
        chk.oblige(ex, unit, "true-iff-same-exactness-and-numerically-equal", b == expected, inputs, replay_value)
    return ex


def spec_order_laws(chk):
    """laws of the implementation alone (no oracle): antisymmetry and transitivity of `<` on exact numbers below 2^15"""
    ex = chk.executor(True)
    nat = chk.ws.runner("dev")
    x, y, z = NumIn(ex, "x", ("Integer", "Rational")), NumIn(ex, "y", ("Integer", "Rational")), NumIn(ex, "z", ("Integer", "Rational"))
    ex.ctx.add(x.valid(), y.valid(), z.valid(), x.within(B15), y.within(B15), z.within(B15))
    f = ex.resolve("<values::Number<R> as PartialOrd>::partial_cmp")
    unit = "Number::partial_cmp order laws"
    inputs = dict(x.inputs("x"))
    inputs.update(y.inputs("y"))
    inputs.update(z.inputs("z"))
    chk.region_ns = {}
    ex.panic_hook = None

    def native_cmp(a, b):
        return nat.cmd("num2 cmp %s %s" % (nl.tok_number(a), nl.tok_number(b))).split()[-1]

    def replay_anti(vv):
        cx, cy = nl.num_from_model(vv, "x"), nl.num_from_model(vv, "y")
        a, b = native_cmp(cx, cy), native_cmp(cy, cx)
        flip = {"Less": "Greater", "Greater": "Less", "Equal": "Equal"}
        return flip.get(a) != b, "cmp(%s,%s)=%s but cmp(y,x)=%s" % (nl.tok_number(cx), nl.tok_number(cy), a, b)

    def replay_trans(vv):
        cx, cy, cz = nl.num_from_model(vv, "x"), nl.num_from_model(vv, "y"), nl.num_from_model(vv, "z")
        a, b, c = native_cmp(cx, cy), native_cmp(cy, cz), native_cmp(cx, cz)
        return (a == "Less" and b == "Less" and c != "Less"), "x=%s y=%s z=%s: x<y %s, y<z %s, x<z %s" % (nl.tok_number(cx), nl.tok_number(cy), nl.tok_number(cz), a, b, c)

    rx, ry, rz = Ref(Cell(x.obj)), Ref(Cell(y.obj)), Ref(Cell(z.obj))
    flip = {"Less": "Greater", "Greater": "Less", "Equal": "Equal"}
    for r1 in ex.run(f, [rx, ry]):
        v1 = r1.fields[0].variant
        for r2 in ex.run(f, [ry, rx]):
            chk.path(unit)
            chk.oblige(ex, unit, "antisymmetry: cmp(y,x) is the reverse of cmp(x,y)", z3.BoolVal(r2.fields[0].variant == flip[v1]), inputs, replay_anti)
        if v1 != "Less":
            continue
        for r2 in ex.run(f, [ry, rz]):
            if r2.fields[0].variant != "Less":
                continue
            for r3 in ex.run(f, [rx, rz]):
                chk.path(unit)
                chk.oblige(ex, unit, "transitivity: x<y and y<z imply x<z", z3.BoolVal(r3.fields[0].variant == "Less"), inputs, replay_trans)
    return ex


def validate(chk, rng, n_random):
    nat = chk.ws.runner("dev")
    ex = chk.executor(True)
    grid = nl.grid_numbers(rng, n_random)
    pairs = [(("I", 4), ("I", 2)), (("I", 4), ("I", 8)), (("I", 2), ("I", 2)), (("Q", 1, -2), ("I", 0)), (("I", 2), ("Q", 4, 2)), (("I", 1), ("Q", 1, 1))]
    for _ in range(max(60, 4 * n_random)):
        pairs.append((rng.choice(grid), rng.choice(grid)))
    fc = ex.resolve("<values::Number<R> as PartialOrd>::partial_cmp")
    fe = ex.resolve("<values::Number<R> as PartialEq>::eq")
    for cx, cy in pairs:
        a = [Ref(Cell(nl.conc_number(*cx))), Ref(Cell(nl.conc_number(*cy)))]
        sym = run_concrete(ex, fc, a)
        sym = {"None": "OK O None"}.get(sym, "OK " + sym.replace("Some ", "")) if sym != "PANIC" else sym
        out = nl.norm_native(nat.cmd("num2 cmp %s %s" % (nl.tok_number(cx), nl.tok_number(cy))))
        chk.validate("Number::partial_cmp", "%s %s" % (nl.tok_number(cx), nl.tok_number(cy)), sym, out)
        sym = run_concrete(ex, fe, a, wrap_ok=True)
        out = nl.norm_native(nat.cmd("num2 eq %s %s" % (nl.tok_number(cx), nl.tok_number(cy))))
        chk.validate("Number::eq", "%s %s" % (nl.tok_number(cx), nl.tok_number(cy)), sym, out)
    # builtins on the argument vectors of base.rs' builtin_greater / builtin_min tests, plus random ones
    vecs = [[], [("I", 2)], [("I", 4), ("I", 2)], [("I", 4), ("I", 8)], [("I", 4), ("I", 2), ("I", 1)], [("I", 4), ("I", 2), ("I", 2)]]
    for _ in range(25):
        vecs.append([rng.choice(grid) for _ in range(rng.randint(1, 3))])
    for name in list(BUILTIN) + ["max", "min", "eqv?"]:
        fn = BUILTIN.get(name) or {"max": "base::max", "min": "base::min", "eqv?": "eqv"}[name]
        f = ex.resolve(fn)
        for vec in vecs:
            if name in ("max", "min") and not vec:
                continue
            if name == "eqv?" and len(vec) != 2:
                continue
            items = [Adt("Value", "Number", [nl.conc_number(*c)]) for c in vec]
            seq = nl.seq_of(ex, "cargs", items, len(items))
            sym = run_concrete(ex, f, [seq])
            out = nl.norm_native(nat.cmd("builtin %s %d %s" % (name.encode().hex(), len(vec), " ".join(nl.tok_number(c) for c in vec))))
            chk.validate("builtin " + name, " ".join(nl.tok_number(c) for c in vec), sym, out)


def run(chk):
    rng = random.Random(chk.seed)
    thorough = chk.tier == "thorough"
    N = 4 if thorough else 3
    chk.bounds = {
        "binary order / equality": "all i32 components (full width), every variant pair incl. Real (all binary32 bit patterns)",
        "n-ary predicates, max, min": "0..%d exact arguments%s, components below 2^15, NaN excluded" % (N, " and every pair of arguments of arbitrary exactness" if thorough else " (operands of mixed exactness through the builtins: thorough tier; through Number::partial_cmp/eq: both tiers)"),
        "eqv? on numbers": "full width",
        "order laws (antisymmetry, transitivity)": "three exact numbers, components below 2^15",
    }
    chk.assumptions += [
        "ratio denominators are non-zero (either sign, unreduced forms allowed)",
        "R = f32 as SMT-LIB Float32; mixed comparisons are defined on fl(a)/fl(b) (the documented conversion)",
        "arguments of the n-ary builtins are numbers (classification of non-numbers is C08's subject)",
        "dev-profile MIR (overflow checks on); release MIR for the binary comparison in the thorough tier",
    ]
    chk.step("validate", validate, chk, rng, 60 if thorough else 25)
    chk.step("partial_cmp", spec_partial_cmp, chk)
    chk.step("eq", spec_eq, chk)
    EX = ("Integer", "Rational")
    for name in ("=", "<", ">", "<=", ">="):
        chk.step("nary-exact " + name, spec_nary, chk, name, N, EX)
        chk.step("nary-structure " + name, spec_nary_structure, chk, name, 4)
        if thorough:
            chk.step("nary-3(int/real) " + name, spec_nary, chk, name, 3, ("Integer", "Real"))
        if thorough:
            chk.step("nary-mixed " + name, spec_nary, chk, name, 2)
        elif name == "<":
            chk.step("nary-mixed(int/real) " + name, spec_nary, chk, name, 2, ("Integer", "Real"))
    for name in ("max", "min"):
        # two ratios first: the only pair of exact operands whose order needs both cross products, in a unit small enough
        # for the bit-vector search to reach when the integer/FP query of a changed comparison comes back unknown
        chk.step("extreme-pair(ratio) " + name, spec_extreme, chk, name, 2, ("Rational",))
        chk.step("extreme-exact " + name, spec_extreme, chk, name, N, EX)
        if thorough:
            chk.step("extreme-mixed " + name, spec_extreme, chk, name, 2)
        else:
            chk.step("extreme-mixed(int/real) " + name, spec_extreme, chk, name, 2, ("Integer", "Real"))
    chk.step("eqv", spec_eqv, chk)
    chk.step("order-laws", spec_order_laws, chk)
    if thorough:
        chk.step("partial_cmp-release", spec_partial_cmp, chk, overflow_checks=False, profile="release")
        chk.step("eq-release", spec_eq, chk, overflow_checks=False, profile="release")
