"""C13 - libraries are encapsulated and loaded once (mechanism level).   (DESIGN.md section 4, C13)"""
import z3

from ..core import Adt, Lazy, Ref, Cell, SeqObj, MapObj, Opaque, StrVal, Tup, Unsupported
from ..harness import hexs
from ..models import Ok, Err, Some, NONE
from ..mir import ENUMS
from . import skel
from . import numlib as nl


def L(name, body):
    return (name, "(define-library (%s) %s)" % (name, body))


LIB_PROBES = [
    # the importer cannot see unexported definitions; exported procedures may use them
    ([L("m", "(import (scheme base)) (export pub) (begin (define hidden 41) (define (pub) (+ hidden 1)))")], True, "(import (m))\n(pub)\nhidden", ["OK -", "OK I 42", "ERR UnboundedSymbol"]),
    # the library cannot see the importer's definitions
    ([L("m", "(import (scheme base)) (export next) (begin (define (next n) (+ n step)))")], True, "(define step 10)\n(import (m))\n(next 1)", None),
    ([L("m", "(import (scheme base)) (export next) (begin (define (next n) (+ n step)))")], True, "(import (m))\n(define step 10)\n(next 1)", ["OK -", "OK -", "ERR UnboundedSymbol"]),
    # redefining an imported name in the importer does not change what the library's own procedures do
    ([L("m", "(import (scheme base)) (export helper twice) (begin (define (helper x) (* x 2)) (define (twice x) (helper x)))")], True,
     "(import (m))\n(define (helper x) 0)\n(twice 21)\n(helper 21)", ["OK -", "OK -", "OK I 42", "OK I 0"]),
    # renamed exports, one binding under two external names, several export declarations, export before the body
    ([L("m", "(export (rename size depth) size) (export other) (begin (define size 3) (define other 4))")], True, "(import (m))\n(vector size depth other)", ["OK -", "OK VM 3 I 3 I 3 I 4"]),
    ([L("m", "(export (rename inner outer)) (begin (define inner 5))")], True, "(import (m))\nouter\ninner", ["OK -", "OK I 5", "ERR UnboundedSymbol"]),
    # exporting an unbound name is an error, no library
    ([L("m", "(export nothing) (begin (define something 1))")], True, "(import (m))\n(+ 1 2)", ["ERR UnboundedSymbol", "OK I 3"]),
    # a library importing another library: only what it re-exports is visible
    ([L("base2", "(export b) (begin (define b 7) (define c 8))"), L("m", "(import (base2)) (export mb) (begin (define mb b))")], True, "(import (m))\nmb\nb", ["OK -", "OK I 7", "ERR UnboundedSymbol"]),
    # an export declaration between two bodies exports the library's FINAL binding; a name imported and then redefined by the library
    ([L("conf", "(import (scheme base)) (begin (define level 1)) (export level current-level) (begin (define level 2) (define (current-level) level))")], True,
     "(import (conf))\nlevel\n(current-level)", ["OK -", "OK I 2", "OK I 2"]),
    ([L("clamp", "(import (scheme base)) (export max use-max) (begin (define (max a b) 'lib-max) (define (use-max) (max 1 2)))")], True,
     "(import (clamp))\n(max 1 2)\n(use-max)", ["OK -", "OK Y " + "lib-max".encode().hex(), "OK Y " + "lib-max".encode().hex()]),
    # exporting under an external name never writes into the library's own environment: an unexported helper spelled like the
    # external name keeps its value; swapped and chained renames
    ([L("sc", "(import (scheme base)) (export (rename factor scale) apply-scale) (begin (define factor 100) (define (scale x) (* x 10)) (define (apply-scale x) (scale x)))")], True,
     "(import (sc))\nscale\n(apply-scale 2)", ["OK -", "OK I 100", "OK I 20"]),
    ([L("sw", "(export (rename left right) (rename right left)) (begin (define left 1) (define right 2))")], True, "(import (sw))\n(vector left right)", ["OK -", "OK VM 2 I 2 I 1"]),
    ([L("ch", "(export (rename a b) (rename b c)) (begin (define a 1) (define b 2))")], True, "(import (ch))\n(vector b c)", ["OK -", "OK VM 2 I 1 I 2"]),
    # expression statements of a library body run in the library's environment: they see and change the library's bindings only
    ([L("tot", "(import (scheme base)) (export total get-total) (begin (define total 0) (set! total 100) (define (get-total) total))")], True,
     "(import (tot))\n(vector total (get-total))", ["OK -", "OK VM 2 I 100 I 100"]),
    ([L("other", "(export total) (begin (define total 7))"), L("tot", "(import (scheme base)) (export get-total) (begin (define total 0) (set! total 100) (define (get-total) total))")], True,
     "(import (other))\n(import (tot))\n(vector total (get-total))", ["OK -", "OK -", "OK VM 2 I 7 I 100"]),
    ([L("usesown", "(import (scheme base)) (export r) (begin (define (own) 3) (define r 0) (set! r (own)))")], True, "(import (usesown))\nr", ["OK -", "OK I 3"]),
    ([L("tools", "(import (scheme base)) (export tool) (begin (define (tool) 9))"), L("callsimp", "(import (scheme base)) (export r) (begin (define r 1) (tool))")], True,
     "(import (tools))\n(import (callsimp))\n(tool)", ["OK -", "ERR UnboundedSymbol", "OK I 9"]),
    # a body-less facade library: imported bindings re-exported, also under new names
    ([L("impl", "(import (scheme base)) (export impl-perimeter v1 v2) (begin (define (impl-perimeter w h) (* 2 (+ w h))) (define v1 1) (define v2 2))"),
      L("facade", "(import (impl)) (export (rename impl-perimeter perimeter) (rename v2 v1))")], True,
     "(import (facade))\n(perimeter 1 2)\nv1", ["OK -", "OK I 6", "OK I 2"]),
    # a library loaded as a LATER import set of one declaration sees nothing of what the earlier sets brought to the importer
    ([L("secrets", "(export key) (begin (define key 42))"), L("client", "(import (scheme base)) (export peek) (begin (define (peek) key))")], True,
     "(import (secrets) (client))\n(peek)", ["OK -", "ERR UnboundedSymbol"]),
    ([L("secrets", "(export key) (begin (define key 42))"), L("client2", "(import (scheme base)) (export got) (begin (define got key))")], True,
     "(import (secrets) (client2))\n(+ 1 2)", ["ERR UnboundedSymbol", "OK I 3"]),
    # imports are bound before the body runs
    ([L("early", "(import (scheme base)) (export start) (begin (define start (+ 40 1)))")], True, "(import (early))\nstart", ["OK -", "OK I 41"]),
    # a library that fails while loading leaves the interpreter untouched
    ([L("bad", "(import (scheme base)) (export x) (begin (define secret 42) (define x (car 5)))")], True, "(import (bad))\n(+ 1 2)\nsecret", ["ERR TypeMisMatch", "OK I 3", "ERR UnboundedSymbol"]),
]
_LP = {}


def lib_probe(nat):
    if id(nat) in _LP:
        return _LP[id(nat)]
    res = (False, "native library probes (hidden helpers, no access to the importer's names, redefinition in the importer, renamed/duplicated exports, unbound export, nested libraries, failing library) all behave correctly")
    for libs, stdlib, prog, want in LIB_PROBES:
        if want is None:
            continue
        cmd = "libs %d %d %s %s" % (1 if stdlib else 0, len(libs), " ".join("%s %s" % (hexs(n), hexs(s)) for n, s in libs), hexs(prog))
        out = nat.cmd(cmd).split(" ;;; ")[0]
        got = [" ".join(f.split()[:2]) if f.strip().startswith("ERR") else f.strip() for f in out.split(" ;; ")]
        if got != want:
            res = (True, "libraries %s, program %r: outcomes %s (expected %s)" % ([s for _, s in libs], prog, got, want))
            break
    _LP[id(nat)] = res
    return res


def instance_probe(nat):
    key = ("inst", id(nat))
    if key not in _LP:
        libs = [L("counter", "(import (scheme base)) (export next!) (begin (define n 0) (define (next!) (set! n (+ n 1)) n))"),
                L("u1", "(import (counter)) (export use1) (begin (define (use1) (next!)))"),
                L("u2", "(import (counter)) (export use2) (begin (define (use2) (next!)))")]
        prog = "(import (u1) (u2))\n(use1)\n(use2)\n(use1)"
        cmd = "libs 1 %d %s %s" % (len(libs), " ".join("%s %s" % (hexs(n), hexs(s)) for n, s in libs), hexs(prog))
        out = [f.strip() for f in nat.cmd(cmd).split(" ;;; ")[0].split(" ;; ")]
        bad = out != ["OK -", "OK I 1", "OK I 2", "OK I 3"]
        _LP[key] = (bad, "a stateful library imported by two other libraries: (use1) (use2) (use1) gives %s (one shared instance would give 1 2 3)" % out[1:])
    return _LP[key]


def same_seq(got, exp):
    """same kinds in the same order, each event on (a part of) the expected declaration / statement object"""
    return len(got) == len(exp) and all(g[0] == e[0] and (g[1] or "").startswith(e[1]) for g, e in zip(got, exp))


def spec_library_definition(chk, ND):
    ex = chk.executor(True)
    ex.seq_max = 2
    nat = chk.ws.runner("dev")
    unit = "Interpreter::eval_library_definition (imports and body statements stubbed)"
    chk.region_ns = {}
    replay = lambda vals: lib_probe(nat)

    def envcell(ex, a):
        return skel.frame_of(ex, a)[0]

    @skel.stub(ex, r"::eval_import$", "eval_import -> Ok or any Err; logged with the target environment")
    def eval_import(ex, callee, args, rt):
        e = skel.err_value("from eval_import")
        ex.log("import", decl=skel.name_of(ex, args[1]), env=envcell(ex, args[2]), error=e)
        yield Ok(Tup([]))
        ex.log("failed", error=e)
        yield Err(e)

    @skel.stub(ex, r"::eval_import_set$|::get_library$", "an import set / a library reached directly from eval_library_definition -> arbitrary bindings, logged as a foreign lookup (the definition must go through eval_import and its own frame)")
    def direct_import(ex, callee, args, rt):
        ex.log("foreign_lookup", callee=callee)
        if callee.endswith("get_library"):
            yield Ok(Lazy("interpreter::library::Library<R>", "foreign_library"))
        else:
            from ..core import StrVal
            yield Ok(SeqObj("foreign_bindings", "(String, Value)", [Cell(Tup([StrVal("imported_name"), Lazy("values::Value<R>", "imported_value")])), Cell(None)], 1, 2))

    @skel.stub(ex, r"::eval_expression_or_definition$", "eval_expression_or_definition -> any Ok or any Err; logged with the environment")
    def eval_stmt(ex, callee, args, rt):
        e = skel.err_value("from a body statement")
        ex.log("stmt", stmt=skel.name_of(ex, args[1]), env=envcell(ex, args[2]), error=e)
        yield Ok(Lazy("std::option::Option<values::Value<R>>", "stmt_result"))
        ex.log("failed", error=e)
        yield Err(e)

    @skel.stub(ex, r"LexicalScope::<.*>::get$|LexicalScope::get$", "LexicalScope::get on the library environment -> Some(any value) or None; logged")
    def scope_get(ex, callee, args, rt):
        n = len([e for e in ex.events if e["kind"] == "lookup"])
        v = Lazy("values::Value<R>", "xv%d" % n)
        ex.log("lookup", env=envcell(ex, args[0]), name=ex.deref(args[1]), value=v)
        yield Some(Ref(Cell(v, "xcell%d" % n)))
        ex.log("lookup_none")
        yield NONE

    it = Lazy("interpreter::Interpreter<R>", "it")
    importer_env = Ref(Cell(Opaque("Environment", "importer_env"), "importer_frame"))
    it.fields[0] = importer_env
    nd = z3.Int("ndecls")
    ex.ctx.add(nd >= 0, nd <= ND)
    decls = ex.fresh_seq("decl", "error::Located<parser::parser::LibraryDeclaration>", maxlen=ND, ln=nd)
    libdef = Adt("LibraryDefinition", None, [Opaque("LibraryName", "libname"), decls])
    f = ex.fn_by_suffix("::eval_library_definition")
    ex.panic_hook = lambda info: chk.oblige(ex, unit, "no-panic", z3.BoolVal(False), {}, replay)
    DECL = ENUMS["LibraryDeclaration"]
    for rv in ex.run(f, [Ref(Cell(it)), Ref(Cell(libdef))]):
        chk.path(unit)
        events = list(ex.events)
        evs = [e for e in events if e["kind"] in ("import", "stmt", "lookup")]
        failed = [e for e in events if e["kind"] == "failed"]
        lookups = [e for e in events if e["kind"] == "lookup"]
        post = []
        # (a) one fresh root frame, never the importer's
        cells = set(id(e["env"]) for e in evs)
        if evs:
            c = evs[0]["env"]
            sc = c.v
            fresh = (len(cells) == 1 and c is not importer_env.cell and isinstance(sc, Adt) and sc.ty == "LexicalScope" and isinstance(sc.fields[0], Adt)
                     and sc.fields[0].variant == "None" and (c.name or "").startswith("heap"))
            post.append(z3.BoolVal(fresh))
        # the interpreter's own environment field is untouched
        post.append(z3.BoolVal(it.fields[0] is importer_env))
        # exports come out of the library's own frame, nowhere else
        post.append(z3.BoolVal(not [e for e in events if e["kind"] == "foreign_lookup"]))
        # (b) declarations in order; each import declaration once, each body statement once, in order.
        # The shape of the definition (declaration count, kinds, statement / spec counts, spec kinds) is an input: whatever
        # part of it the path left open is enumerated, the obligation is stated for each completion
        def decl_shapes(i, n, exp, specs):
            if i == n:
                yield exp, specs
                return
            d = ex.seq_item(decls, i).v
            body = ex.project(d, ("f", 0, "parser::parser::LibraryDeclaration"))
            tag = ex.lazy_tag(body)
            for kind in skel.each_value(ex, tag, range(len(DECL))):
                kind = DECL[kind]
                if kind == "ImportDeclaration":
                    yield from decl_shapes(i + 1, n, exp + [("import", "decl[%d].0.ImportDeclaration.0" % i)], specs)
                elif kind == "Begin":
                    stmts = ex.deref(ex.project(("DC", body, "Begin"), ("f", 0, "std::vec::Vec<parser::parser::Statement>")))
                    for k in skel.each_value(ex, skel.seq_len_term(stmts), range(stmts.max + 1)):
                        yield from decl_shapes(i + 1, n, exp + [("stmt", "%s[%d]" % (stmts.name, j)) for j in range(k)], specs)
                elif kind == "Export":
                    xs = ex.deref(ex.project(("DC", body, "Export"), ("f", 0, "std::vec::Vec<error::Located<parser::parser::ExportSpec>>")))

                    def spec_shapes(j, k, acc):
                        if j == k:
                            yield acc
                            return
                        sp = ex.project(ex.seq_item(xs, j).v, ("f", 0, "parser::parser::ExportSpec"))
                        st = ex.lazy_tag(sp)
                        for which in skel.each_value(ex, st, [ENUMS["ExportSpec"].index("Direct"), ENUMS["ExportSpec"].index("Rename")]):
                            if which == ENUMS["ExportSpec"].index("Direct"):
                                nm = ex.project(("DC", sp, "Direct"), ("f", 0, "std::string::String"))
                                yield from spec_shapes(j + 1, k, acc + [(nm, nm)])
                            else:
                                yield from spec_shapes(j + 1, k, acc + [(ex.project(("DC", sp, "Rename"), ("f", 0, "std::string::String")), ex.project(("DC", sp, "Rename"), ("f", 1, "std::string::String")))])
                    for k in skel.each_value(ex, skel.seq_len_term(xs), range(xs.max + 1)):
                        for more in spec_shapes(0, k, []):
                            yield from decl_shapes(i + 1, n, exp, specs + more)
                else:
                    yield from decl_shapes(i + 1, n, exp, specs)

        post_common = post
        for nconc in skel.each_value(ex, nd, range(ND + 1)):
            for exp, specs in decl_shapes(0, nconc, [], []):
                post = list(post_common)
                order_ok = True
                got = [(e["kind"], e.get("decl") or e.get("stmt")) for e in events if e["kind"] in ("import", "stmt")]
                if failed:
                    # the first failing declaration ends the evaluation with that error; what ran before it is a prefix of the expected sequence
                    pre_ok = same_seq(got, exp[:len(got)])
                    last = [e for e in events if e["kind"] in ("import", "stmt")][-1] if got else None
                    post.append(z3.BoolVal(pre_ok and isinstance(rv, Adt) and rv.variant == "Err" and rv.fields[0] is failed[0]["error"] and not lookups and len(failed) == 1))
                else:
                    post.append(z3.BoolVal(same_seq(got, exp)))
                    # (c) exports
                    unbound = [e for e in events if e["kind"] == "lookup_none"]
                    for j, lk in enumerate(lookups):
                        if j < len(specs):
                            post.append(lk["name"].t == specs[j][0].t)
                        else:
                            post.append(z3.BoolVal(False))
                    if unbound:
                        is_err = isinstance(rv, Adt) and rv.variant == "Err" and not isinstance(rv.fields[0], Opaque)
                        post.append(z3.BoolVal(is_err and nl.err_kind(ex, rv.fields[0]) == "UnboundedSymbol"))
                    else:
                        post.append(z3.BoolVal(len(lookups) == len(specs)))
                        ok = isinstance(rv, Adt) and rv.variant == "Ok"
                        post.append(z3.BoolVal(ok))
                        if ok:
                            lib = rv.fields[0]
                            m = lib.fields[1] if isinstance(lib, Adt) else None
                            if not isinstance(m, MapObj):
                                post.append(z3.BoolVal(False))
                            else:
                                idx = {id(lk["value"]): j for j, lk in enumerate(lookups)}
                                for (k, p, cell) in m.entries:
                                    j = idx.get(id(cell.v))
                                    if j is None or j >= len(specs):
                                        post.append(z3.Not(p))
                                        continue
                                    later = [specs[t][1].t != k.t for t in range(j + 1, len(specs))]
                                    post.append(z3.Implies(p, z3.And(k.t == specs[j][1].t, *later)))
                                for j in range(len(specs)):
                                    post.append(z3.Or(*[z3.And(p, k.t == specs[j][1].t) for (k, p, cell) in m.entries]) if m.entries else z3.BoolVal(False))
                if __import__("os").environ.get("VERIF_DEBUG_POST"):
                    for i_, c_ in enumerate(post):
                        if ex.ctx.check(z3.Not(c_)) == z3.sat:
                            print("   failing conjunct", i_, str(c_)[:200], "events", [(e["kind"], e.get("decl") or e.get("stmt")) for e in events][:6], "exp", exp[:6])
                chk.oblige(ex, unit, "the body is evaluated only in a fresh root frame (never the importer's); declarations in order, first error wins; the library holds exactly one binding per export spec, under the external name, with the value looked up under the internal name",
                           z3.And(*post), {}, replay)


def spec_single_instance(chk):
    ex = chk.executor(True)
    nat = chk.ws.runner("dev")
    unit = "Interpreter::get_library twice for one name (eval_library_definition stubbed)"
    chk.region_ns = {}

    @skel.stub(ex, r"::eval_library_definition$", "eval_library_definition -> any Ok(library) or any Err; logged")
    def eld(ex, callee, args, rt):
        ex.log("instantiate")
        yield Ok(Lazy("interpreter::library::Library<R>", "instance%d" % len(ex.events)))

    @skel.stub(ex, r"::file_library_factory$", "file_library_factory -> any Err (the library is registered, not on disk)")
    def flf(ex, callee, args, rt):
        yield Err(skel.err_value("no file"))

    it = Lazy("interpreter::Interpreter<R>", "it")
    name = Opaque("LibraryName", "the_name")
    ex.key_eq_hook = lambda ex_, a, b: z3.BoolVal(ex_.deref(a) is ex_.deref(b) or (getattr(ex_.deref(a), "tag", None) == "the_name" and getattr(ex_.deref(b), "tag", None) == "the_name"))
    factories = MapObj("lib_factories")
    libdef = Adt("Located", None, [Lazy("parser::parser::LibraryDefinition", "the_definition"), Opaque("location", "l")])
    factories.entries.append((name, z3.BoolVal(True), Cell(Ref(Cell(Adt("GenericLibraryFactory", "AST", [libdef]), "factory_rc")))))
    loader = Adt("LibraryLoader", None, [factories])
    it.fields[1] = loader
    f = ex.fn_by_suffix("::get_library")
    located = Adt("Located", None, [name, Opaque("location", "l2")])
    for r1 in ex.run(f, [Ref(Cell(it)), located]):
        for r2 in ex.run(f, [Ref(Cell(it)), located]):
            chk.path(unit)
            n = len([e for e in ex.events if e["kind"] == "instantiate"])
            same = isinstance(r1, Adt) and isinstance(r2, Adt) and r1.variant == "Ok" and r2.variant == "Ok" and r1.fields[0] is r2.fields[0]
            chk.oblige(ex, unit, "two loads of one library on one interpreter evaluate its definition once and yield the same instance", z3.BoolVal(n == 1 and same),
                       {"always": z3.BoolVal(True)}, lambda vals: instance_probe(nat))


def run(chk):
    thorough = chk.tier == "thorough"
    ND = 3 if thorough else 2
    chk.bounds = {"library definition": "0..%d declarations of arbitrary kind (import / export / begin), each export or begin list of 0..2 items, export specs direct or renamed with symbolic names" % ND}
    chk.assumptions += [
        "mechanism level: imports (eval_import), body statements (eval_expression_or_definition) and lookups in the library frame are logging stubs returning every value of their type",
        "that exported procedures capture the library's frame (so redefinition in the importer cannot reach them) follows from C01's closure obligation; name-collision behaviour of whole importing programs and file-based loading are outside",
        "structural counterexamples are confirmed by native library probes before they are reported",
    ]
    chk.run_probes("libraries", lib_probe, chk.ws.runner("dev"), len(LIB_PROBES))
    chk.step("eval_library_definition", spec_library_definition, chk, ND)
    chk.step("single instance", spec_single_instance, chk)
