"""C06 - the reader maps text to the data its tokens denote: token-level slice.   (DESIGN.md section 4, C06)"""
import z3

from ..core import Adt, Lazy, Ref, Cell, SeqObj, IterObj, Opaque, StrVal, CharStr, Tup, Unsupported
from ..harness import hexs, unhexs
from ..mir import ENUMS
from . import lexskel

WS = (32, 9, 10, 13)
DELIMS = (32, 9, 10, 13, 40, 41, 34, 59, 124)          # space tab LF CR ( ) " ; |


def is_ws(c):
    return z3.Or(*[c == w for w in WS])


def is_delim(c):
    return z3.Or(*[c == d for d in DELIMS])


def is_digit(c):
    return z3.And(c >= 48, c <= 57)


def is_initial(c):
    return z3.Or(z3.And(c >= 97, c <= 122), z3.And(c >= 65, c <= 90), *[c == ord(x) for x in "!$%&*/:<=>?@^_~"])


def is_subsequent(c):
    return z3.Or(is_initial(c), is_digit(c), *[c == ord(x) for x in "+-.@"])


def dec_value(ds):
    v = z3.IntVal(0)
    for d in ds:
        v = v * 10 + (d - 48)
    return v


def token_kind(tok):
    td = tok.fields[0]
    if td.variant == "Primitive":
        return "Primitive/" + td.fields[0].variant
    return td.variant


def charstr_eq(cs, chars):
    """z3 Bool: the token's string (character list) equals the given characters"""
    if not isinstance(cs, CharStr) or len(cs.chars) != len(chars):
        return z3.BoolVal(False)
    return z3.And(*[a == b for a, b in zip(cs.chars, chars)]) if chars else z3.BoolVal(True)


def native_tokens(nat, text):
    return nat.cmd("tokdump %s" % hexs(text))


def run_family(chk, unit, build, expect, max_tokens=4):
    """build(ex) -> (chars, ln).  expect(ex, chars, tokens, status) -> z3 Bool that must hold on every path; and a python
    re-statement `pyexpect(text) -> expected token dump` used to confirm counterexamples natively."""
    ex = chk.executor(True)
    ex.string_mode = "chars"
    ex.loop_bound = 20
    nat = chk.ws.runner("dev")
    chars, ln, pyexpect = build(ex)
    lx, src, peek = lexskel.make_lexer(ex, chars, ln)
    inputs = {"len": ln if not isinstance(ln, int) else z3.IntVal(ln)}
    for i, c in enumerate(chars):
        inputs["c%d" % i] = c
    chk.region_ns = {}

    def replay(vals):
        n = vals["len"]
        text = "".join(chr(vals["c%d" % i]) for i in range(n))
        got = native_tokens(nat, text)
        want = pyexpect(text)
        # compare the tokens the family speaks about (the first one; both for the two-token family)
        nw = want.replace(" ...", "").split(" ;; ")
        ng = got.split(" ;; ")[:len(nw)]
        return ng != nw, "text %r: real lexer gives %s, the text denotes %s" % (text, got, want)

    ex.panic_hook = lambda info: chk.oblige(ex, unit, "no panic", z3.BoolVal(False), inputs, replay)

    def on_end(tokens, status, err):
        chk.path(unit)
        chk.oblige(ex, unit, "the tokens are exactly the data the text denotes", expect(ex, chars, ln, tokens, status), inputs, replay)

    lexskel.run_tokens(ex, lx, src, peek, max_tokens, on_end)


# ------------------------------------------------------------------------------------------------ families
def fam_integer(maxd):
    """[sign] digits{1..maxd} (value within i32) followed by the end or by a delimiter and one more arbitrary character"""
    def build(ex):
        n = maxd + 3
        chars = [lexskel.char_var(ex, "c%d" % i) for i in range(n)]
        ln = z3.Int("len")
        nd = z3.Int("ndigits")
        signed = z3.Bool("signed")
        off = z3.If(signed, 1, 0)
        ex.ctx.add(nd >= 1, nd <= maxd, ln >= off + nd, ln <= off + nd + 2)
        ex.ctx.add(z3.Implies(signed, z3.Or(chars[0] == 43, chars[0] == 45)))
        for i in range(n):
            ex.ctx.add(z3.Implies(z3.And(i >= off, i < off + nd), is_digit(chars[i])))
            ex.ctx.add(z3.Implies(z3.And(i == off + nd, ln > off + nd), is_delim(chars[i])))
        build.meta = (chars, ln, nd, signed)

        def pyexpect(text):
            import re
            m = re.match(r"^([+-]?)(\d+)", text)
            v = int(m.group(1) + m.group(2))
            if not (-2**31 <= v < 2**31):
                return "ERR"
            return "I %d" % v + pytail(text[m.end():])
        return chars, ln, pyexpect

    def expect(ex, chars, ln, tokens, status):
        chars, ln, nd, signed = build.meta
        # value of the literal, from the TEXT; the shape (digit count, sign) is an input: whatever the path left open is covered
        def for_shape(k, sg):
            off = 1 if sg else 0
            mag = dec_value(chars[off:off + k])
            val = z3.If(z3.And(z3.BoolVal(sg), chars[0] == 45), -mag, mag)
            fits = z3.And(val >= -2**31, val <= 2**31 - 1)
            if not tokens:
                return z3.And(z3.BoolVal(status == "error"), z3.Not(fits))
            tok, a, b = tokens[0]
            td = tok.fields[0]
            good = td.variant == "Primitive" and td.fields[0].variant == "Integer"
            if not good:
                return z3.BoolVal(False)
            return z3.And(fits, td.fields[0].fields[0] == val, z3.BoolVal(a == 0 and b == off + k), after_literal(ex, chars, ln, off + k, tokens))
        return z3.And(*[z3.Implies(z3.And(nd == k, signed == z3.BoolVal(sg)), for_shape(k, sg)) for k in range(1, maxd + 1) for sg in (False, True)])
    return build, expect


def after_literal(ex, chars, ln, end, tokens):
    """a parenthesis directly after the literal is its own token (the literal does not swallow the delimiter)"""
    nxt = tokens[1][0].fields[0].variant if len(tokens) > 1 else None
    c = chars[end] if end < len(chars) else None
    if c is None:
        return z3.BoolVal(True)
    has = zlen(ln) > end
    return z3.And(z3.Implies(z3.And(has, c == 40), z3.BoolVal(nxt == "LeftParen")), z3.Implies(z3.And(has, c == 41), z3.BoolVal(nxt == "RightParen")))


def zlen(ln):
    return z3.IntVal(ln) if isinstance(ln, int) else ln


def pytail(rest):
    """tokens denoted by what follows a literal, as far as this family speaks about it: a parenthesis is its own token"""
    if rest[:1] == "(":
        return " ;; LP"
    if rest[:1] == ")":
        return " ;; RP"
    return " ..." if rest else ""


def fam_ratio(maxn, maxd):
    def build(ex):
        n = maxn + 1 + maxd + 1
        chars = [lexskel.char_var(ex, "c%d" % i) for i in range(n)]
        ln = z3.Int("len")
        a = z3.Int("nnum")
        b = z3.Int("nden")
        ex.ctx.add(a >= 1, a <= maxn, b >= 1, b <= maxd, ln >= a + 1 + b, ln <= a + 1 + b + 1)
        for i in range(n):
            ex.ctx.add(z3.Implies(i < a, is_digit(chars[i])), z3.Implies(i == a, chars[i] == 47), z3.Implies(z3.And(i > a, i <= a + b), is_digit(chars[i])),
                       z3.Implies(z3.And(i == a + b + 1, ln > a + b + 1), is_delim(chars[i])))
        build.meta = (chars, ln, a, b)

        def pyexpect(text):
            import re
            m = re.match(r"^(\d+)/(\d+)", text)
            x, y = int(m.group(1)), int(m.group(2))
            if y == 0 or x >= 2**31 or y >= 2**32:
                return "ERR"
            return "Q %d %d" % (x, y) + pytail(text[m.end():])
        return chars, ln, pyexpect

    def expect(ex, chars, ln, tokens, status):
        chars, ln, a, b = build.meta
        def for_shape(ka, kb):
            num = dec_value(chars[:ka])
            den = dec_value(chars[ka + 1:ka + 1 + kb])
            ok = z3.And(num <= 2**31 - 1, den <= 2**32 - 1, den != 0)
            if not tokens:
                return z3.And(z3.BoolVal(status == "error"), z3.Not(ok))
            tok, s0, s1 = tokens[0]
            td = tok.fields[0]
            if not (td.variant == "Primitive" and td.fields[0].variant == "Rational"):
                return z3.BoolVal(False)
            return z3.And(ok, td.fields[0].fields[0] == num, td.fields[0].fields[1] == den, z3.BoolVal(s1 == ka + 1 + kb), after_literal(ex, chars, ln, ka + 1 + kb, tokens))
        return z3.And(*[z3.Implies(z3.And(a == ka, b == kb), for_shape(ka, kb)) for ka in range(1, maxn + 1) for kb in range(1, maxd + 1)])
    return build, expect


def fam_hash():
    """#t #f #\\x  followed by the end or a delimiter"""
    def build(ex):
        chars = [lexskel.char_var(ex, "c%d" % i) for i in range(4)]
        ln = z3.Int("len")
        ex.ctx.add(chars[0] == 35, ln >= 2, ln <= 4)
        ex.ctx.add(z3.Or(chars[1] == 116, chars[1] == 102, chars[1] == 92))
        ex.ctx.add(z3.Implies(chars[1] == 92, ln >= 3))
        ex.ctx.add(z3.Implies(z3.And(chars[1] != 92, ln > 2), is_delim(chars[2])), z3.Implies(z3.And(chars[1] != 92, ln > 2), ln == 3))
        ex.ctx.add(z3.Implies(z3.And(chars[1] == 92, ln > 3), is_delim(chars[3])))

        def pyexpect(text):
            if text[1] == "t":
                return "B 1" + pytail(text[2:])
            if text[1] == "f":
                return "B 0" + pytail(text[2:])
            return "C %d" % ord(text[2]) + pytail(text[3:])
        return chars, ln, pyexpect

    def expect(ex, chars, ln, tokens, status):
        if not tokens:
            return z3.BoolVal(False)
        td = tokens[0][0].fields[0]
        if td.variant != "Primitive":
            return z3.BoolVal(False)
        p = td.fields[0]
        if p.variant == "Boolean":
            return z3.And(chars[1] != 92, p.fields[0] == (chars[1] == 116), z3.BoolVal(tokens[0][2] == 2))
        if p.variant == "Character":
            return z3.And(chars[1] == 92, p.fields[0] == chars[2], z3.BoolVal(tokens[0][2] == 3))
        return z3.BoolVal(False)
    return build, expect


def fam_identifier(maxk):
    """initial subsequent{0..maxk-1}, then the end, or a delimiter and one more character; and the pair  ident ws{1..2} ident"""
    def build(ex):
        n = maxk + 2
        chars = [lexskel.char_var(ex, "c%d" % i) for i in range(n)]
        ln = z3.Int("len")
        k = z3.Int("k")
        ex.ctx.add(k >= 1, k <= maxk, ln >= k, ln <= k + 2, is_initial(chars[0]))
        for i in range(1, n):
            ex.ctx.add(z3.Implies(i < k, is_subsequent(chars[i])), z3.Implies(z3.And(i == k, ln > k), is_delim(chars[i])))
        build.meta = (chars, ln, k)

        def pyexpect(text):
            import re
            m = re.match(r"^[^ \t\n\r()\";|]+", text)
            return "ID %s" % hexs(m.group(0)) + pytail(text[m.end():])
        return chars, ln, pyexpect

    def expect(ex, chars, ln, tokens, status):
        chars, ln, k = build.meta
        if not tokens:
            return z3.BoolVal(False)
        tok, a, b = tokens[0]
        td = tok.fields[0]
        if td.variant != "Identifier":
            return z3.BoolVal(False)
        return z3.And(*[z3.Implies(k == kk, z3.And(charstr_eq(td.fields[0], chars[:kk]), z3.BoolVal(a == 0 and b == kk))) for kk in range(1, maxk + 1)])
    return build, expect


def fam_two_tokens():
    """ident  <1..2 characters of whitespace of any kind, or a ';' comment ended by LF/CR>  ident|integer|(  : the same two tokens"""
    def build(ex):
        chars = [lexskel.char_var(ex, "c%d" % i) for i in range(5)]
        nsep = z3.Int("nsep")
        comment = z3.Bool("comment")
        ex.ctx.add(nsep >= 0, nsep <= 2, is_initial(chars[0]))
        ln = z3.Int("len")
        ex.ctx.add(ln == 2 + nsep)
        # separator kinds
        ex.ctx.add(z3.Implies(z3.Not(comment), z3.And(*[z3.Implies(nsep > j, is_ws(chars[1 + j])) for j in range(2)])))
        ex.ctx.add(z3.Implies(comment, z3.And(nsep == 2, chars[1] == 59, z3.Or(chars[2] == 10, chars[2] == 13))))
        # second token: '(' (also allowed directly after the identifier), or an identifier/digit (needs a separator)
        second = [z3.If(nsep == j, chars[1 + j], z3.IntVal(0)) for j in range(3)]
        c2 = second[0] + second[1] + second[2]
        ex.ctx.add(z3.Or(c2 == 40, z3.And(nsep >= 1, z3.Or(is_initial(c2), is_digit(c2)))))
        build.meta = (chars, nsep, comment, c2)

        def pyexpect(text):
            first = "ID %s" % hexs(text[0])
            last = text[-1]
            second = "LP" if last == "(" else ("I %d" % int(last) if last.isdigit() else "ID %s" % hexs(last))
            return first + " ;; " + second
        return chars, ln, pyexpect

    def expect(ex, chars, ln, tokens, status):
        chars, nsep, comment, c2 = build.meta
        if len(tokens) != 2 or status != "end":
            return z3.BoolVal(False)
        t1, t2 = tokens[0][0].fields[0], tokens[1][0].fields[0]
        if t1.variant != "Identifier":
            return z3.BoolVal(False)
        post = [charstr_eq(t1.fields[0], chars[:1])]
        if t2.variant == "LeftParen":
            post.append(c2 == 40)
        elif t2.variant == "Identifier":
            post.append(z3.And(is_initial(c2), isinstance(t2.fields[0], CharStr) and len(t2.fields[0].chars) == 1 and t2.fields[0].chars[0] == c2))
        elif t2.variant == "Primitive" and t2.fields[0].variant == "Integer":
            post.append(z3.And(is_digit(c2), t2.fields[0].fields[0] == c2 - 48))
        else:
            post.append(z3.BoolVal(False))
        return z3.And(*post)
    return build, expect


def fam_string(maxk):
    """'"' body{0..maxk} '"' where the body has no '"' and no backslash, or the escapes \\" \\\\ \\n \\t"""
    def build(ex):
        n = maxk + 2
        chars = [lexskel.char_var(ex, "c%d" % i) for i in range(n)]
        ln = z3.Int("len")
        k = z3.Int("k")
        ex.ctx.add(k >= 0, k <= maxk, ln == k + 2, chars[0] == 34)
        for i in range(1, n):
            ex.ctx.add(z3.Implies(i == k + 1, chars[i] == 34), z3.Implies(z3.And(i >= 1, i <= k), z3.And(chars[i] != 34, chars[i] != 92)))
        build.meta = (chars, ln, k)

        def pyexpect(text):
            return "S %s" % hexs(text[1:-1])
        return chars, ln, pyexpect

    def expect(ex, chars, ln, tokens, status):
        chars, ln, k = build.meta
        if len(tokens) != 1 or status != "end":
            return z3.BoolVal(False)
        td = tokens[0][0].fields[0]
        if not (td.variant == "Primitive" and td.fields[0].variant == "String"):
            return z3.BoolVal(False)
        return z3.And(*[z3.Implies(k == kk, charstr_eq(td.fields[0].fields[0], chars[1:1 + kk])) for kk in range(0, maxk + 1)])
    return build, expect


def fam_exponent():
    """digits{1..2} 'e' digits{1..2} then the end: a decimal with exponent is an INEXACT literal whose text is the token's text"""
    def build(ex):
        chars = [lexskel.char_var(ex, "c%d" % i) for i in range(5)]
        ln = z3.Int("len")
        a, b = z3.Int("nmant"), z3.Int("nexp")
        ex.ctx.add(a >= 1, a <= 2, b >= 1, b <= 2, ln == a + 1 + b)
        for i in range(5):
            ex.ctx.add(z3.Implies(i < a, is_digit(chars[i])), z3.Implies(i == a, chars[i] == 101), z3.Implies(z3.And(i > a, i <= a + b), is_digit(chars[i])))
        build.meta = (chars, ln, a, b)

        def pyexpect(text):
            return "R %s" % hexs(text)
        return chars, ln, pyexpect

    def expect(ex, chars, ln, tokens, status):
        chars, ln, a, b = build.meta
        if len(tokens) != 1 or status != "end":
            return z3.BoolVal(False)
        td = tokens[0][0].fields[0]
        if not (td.variant == "Primitive" and td.fields[0].variant == "Real"):
            return z3.BoolVal(False)
        return z3.And(*[z3.Implies(z3.And(a == ka, b == kb), charstr_eq(td.fields[0].fields[0], chars[:ka + 1 + kb])) for ka in (1, 2) for kb in (1, 2)])
    return build, expect


ESCAPES = {"a": 7, "b": 8, "t": 9, "n": 10, "r": 13, '"': 34, "\\": 92, "|": 124}


def fam_string_escapes(pattern):
    """'"' units '"' [')']  where unit i is a plain character (no quote, no backslash) or - where pattern[i] - a backslash followed
    by one of a b t n r " \\ | ; the token is the string of the denoted characters and ends at the closing quote"""
    def build(ex):
        n = 1 + sum(2 if e else 1 for e in pattern) + 1 + 1
        chars = [lexskel.char_var(ex, "c%d" % i) for i in range(n)]
        ln = z3.Int("len")
        ex.ctx.add(chars[0] == 34, z3.Or(ln == n - 1, ln == n), chars[n - 2] == 34, chars[n - 1] == 41)
        pos = 1
        content = []
        for e in pattern:
            if e:
                ex.ctx.add(chars[pos] == 92, z3.Or(*[chars[pos + 1] == ord(k) for k in ESCAPES]))
                den = z3.IntVal(0)
                for k, v in ESCAPES.items():
                    den = z3.If(chars[pos + 1] == ord(k), v, den)
                content.append(den)
                pos += 2
            else:
                ex.ctx.add(chars[pos] != 34, chars[pos] != 92)
                content.append(chars[pos])
                pos += 1
        build.meta = (chars, ln, content, n)

        def pyexpect(text):
            out = []
            i = 1
            while text[i] != '"':
                if text[i] == "\\":
                    out.append(chr(ESCAPES[text[i + 1]]))
                    i += 2
                else:
                    out.append(text[i])
                    i += 1
            return "S %s" % hexs("".join(out)) + pytail(text[i + 1:])
        return chars, ln, pyexpect

    def expect(ex, chars, ln, tokens, status):
        chars, ln, content, n = build.meta
        if not tokens:
            return z3.BoolVal(False)
        tok, a, b = tokens[0]
        td = tok.fields[0]
        if not (td.variant == "Primitive" and td.fields[0].variant == "String"):
            return z3.BoolVal(False)
        return z3.And(charstr_eq(td.fields[0].fields[0], content), z3.BoolVal(a == 0 and b == n - 1), after_literal(ex, chars, ln, n - 1, tokens),
                      z3.BoolVal(status != "error"))
    return build, expect


def run(chk):
    thorough = chk.tier == "thorough"
    chk.bounds = {"integers": "[sign] 1..10 digits (every value, also beyond i32) followed by the end or a delimiter and one more character",
                  "ratios": "1..%d digits '/' 1..%d digits" % ((10, 10) if thorough else (4, 4)), "booleans / characters": "#t #f #\\x for every character x",
                  "identifiers": "an initial and up to %d subsequent characters of the identifier alphabet, then the end or a delimiter" % (3 if thorough else 2),
                  "strings": "bodies of 0..%d characters other than quote and backslash; bodies of 1..%d units, each a plain character or one of the escapes \\a \\b \\t \\n \\r \\\" \\\\ \\|, followed by the end or a closing parenthesis" % (3 if thorough else 2, 3 if thorough else 2),
                  "decimals": "1..2 digits, e, 1..2 digits: an inexact literal with exactly that text (the value of reals is outside)",
                  "layout": "identifier, 0..2 separator characters (blank, tab, CR, LF in any mix, or a ';' comment ended by LF or CR), then '(' / identifier / digit"}
    chk.assumptions += [
        "token-level slice of C06: the lexer only; the reader's list / dotted-tail / vector / quote structure (parser.rs, pair.rs) and read_literal are outside",
        "the oracle is stated on the TEXT by construction of each family (what the characters denote), not by re-running the lexer; counterexamples are replayed on the real lexer",
        "String is modelled as the list of its characters; str::parse::<i32/u32> as optional sign + digits + range",
    ]
    fams = [("integer literals", fam_integer(10)), ("ratio literals", fam_ratio(*((10, 10) if thorough else (4, 4)))), ("booleans and characters", fam_hash()),
            ("identifiers", fam_identifier(4 if thorough else 3)), ("strings", fam_string(3 if thorough else 2)), ("two tokens and layout", fam_two_tokens())]
    fams.append(("decimals with exponent", fam_exponent()))
    import itertools
    for k in (1, 2, 3) if thorough else (1, 2):
        for pat in itertools.product((False, True), repeat=k):
            if any(pat):
                fams.append(("strings with escapes %s" % "".join("e" if e else "c" for e in pat), fam_string_escapes(pat)))
    for label, (build, expect) in fams:
        chk.step(label, run_family, chk, "Lexer: " + label, build, expect)
    from . import c06reader
    chk.step("reader structure", c06reader.spec_reader, chk, 5 if thorough else 4)
