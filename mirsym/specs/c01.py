"""C01 - core evaluation: one structural-induction step of the evaluator (mechanism level).   (DESIGN.md section 4, C01)"""
from . import skel
from .c01_parts import spec_apply_scheme, spec_eval_expression, spec_native_apply, spec_definition


def run(chk):
    chk.bounds = {"expression": "an arbitrary Expression node of every kind; operand lists of 0..3 expressions", "procedures": "0..4 fixed parameters with/without rest parameter, 0..4 arguments, 0..2 internal definitions, 1..3 body expressions"}
    chk.assumptions += [
        "mechanism level: each evaluator step is decided for an arbitrary node with its sub-evaluations replaced by nondeterministic logged stubs; the structural induction over programs (and termination) is an argument, not machine-checked",
        "the parser's side (define sugar vs lambda, formals parsing) and the abstract parameter list (ParameterFormals::iter_to_last/len/as_name are stubbed consistently) are outside",
        "structural counterexamples are confirmed by native evaluator probes before they are reported",
    ]
    from .c01_parts import eval_probe, EVAL_PROBES
    chk.run_probes("evaluator", eval_probe, chk.ws.runner("dev"), len(EVAL_PROBES))
    chk.run_probes("procedure shapes", skel.shape_probe_selfcheck, chk.ws.runner("dev"), 6 * len(skel.SHAPES))
    chk.step("eval_expression", spec_eval_expression, chk)
    chk.step("apply_scheme_procedure", spec_apply_scheme, chk, "", ("fresh", "bind", "order"))
    chk.step("native apply", spec_native_apply, chk)
    # the value of a call made in tail position is the value of THAT procedure applied to THOSE arguments: the trampoline must
    # re-bind exactly the procedure and arguments of the returned tail call (same unit as in C02)
    from .c02 import spec_trampoline
    chk.step("trampoline re-binding", spec_trampoline, chk, 3, eval_probe)
    chk.step("definitions", spec_definition, chk)
    # the last expression of a body is evaluated by eval_tail_expression: the value of an if is that of the selected arm, a call is
    # handed back with ITS operator and operands and the environment of the body (so that they are evaluated there) - the unit of C02
    from .c02 import spec_eval_tail
    chk.step("eval_tail_expression", spec_eval_tail, chk, 2)
