"""C01 - core evaluation: one structural-induction step of the evaluator (mechanism level).   (DESIGN.md section 4, C01)"""
from .c01_parts import spec_apply_scheme, spec_eval_expression, spec_native_apply


def run(chk):
    chk.bounds = {"expression": "an arbitrary Expression node of every kind; operand lists of 0..3 expressions", "procedures": "0..4 fixed parameters with/without rest parameter, 0..4 arguments, 0..2 internal definitions, 1..3 body expressions"}
    chk.assumptions += [
        "mechanism level: each evaluator step is decided for an arbitrary node with its sub-evaluations replaced by nondeterministic logged stubs; the structural induction over programs (and termination) is an argument, not machine-checked",
        "the parser's side (define sugar vs lambda, formals parsing) and the abstract parameter list (ParameterFormals::iter_to_last/len/as_name are stubbed consistently) are outside",
        "structural counterexamples are confirmed by native evaluator probes before they are reported",
    ]
    from .c01_parts import eval_probe, EVAL_PROBES
    chk.run_probes("evaluator", eval_probe, chk.ws.runner("dev"), len(EVAL_PROBES))
    chk.step("eval_expression", spec_eval_expression, chk)
    chk.step("apply_scheme_procedure", spec_apply_scheme, chk, "", ("fresh", "bind", "order"))
    chk.step("native apply", spec_native_apply, chk)
