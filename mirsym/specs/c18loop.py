"""C18 - the REPL loop (repl::run_with_interpreter): WHEN is the text entered so far submitted, and WHAT is submitted.
Engine: mirsym (the loop's MIR with the line editor, the evaluator and printing replaced by logging stubs)."""
import re
import subprocess
import os

import z3

from ..core import Adt, Lazy, Ref, Cell, SeqObj, IterObj, Opaque, StrVal, CharStr, Tup, Unsupported
from ..harness import hexs
from ..models import Ok, Err, Some, NONE, UNIT
from . import skel

# characters a line may contain: the ones check_bracket_closed distinguishes, a letter standing for every other character (checked by the Kani alphabet harness) (no line breaks: a line
# is what the line editor returns)
LINE_ALPHABET = ['(', ')', '"', ';', '#', '\\', '|', 'a']


def spec_repl_loop(chk, K, L):
    from ..mir import ENUMS
    # rustyline 8.2 (unix): the variant order of its error type, for the loop's match on it
    ENUMS.setdefault("ReadlineError", ["Io", "Eof", "Interrupted", "Utf8Error", "Errno"])
    ex = chk.executor(True)
    ex.string_mode = "chars"
    ex.loop_bound = 4 * (K + 2) * (L + 2)
    nat = chk.ws.runner("dev")
    unit = "repl::run_with_interpreter (line editor, evaluator and printing stubbed; check_bracket_closed real)"
    chk.region_ns = {}
    inputs = {}
    lines = []
    for k in range(K):
        cs = []
        for j in range(L):
            c = z3.Int("line%d_c%d" % (k, j))
            ex.ctx.add(z3.Or(*[c == ord(a) for a in LINE_ALPHABET]))
            inputs["line%d_c%d" % (k, j)] = c
            cs.append(c)
        ln = z3.Int("line%d_len" % k)
        kind = z3.Int("line%d_kind" % k)        # 0 a line, 1 interrupted (ctrl-c)
        ex.ctx.add(ln >= 0, ln <= L, kind == 0)          # ctrl-c is not part of the property (and cannot be replayed over a pipe)
        inputs["line%d_len" % k] = ln
        inputs["line%d_kind" % k] = kind
        lines.append((cs, ln, kind))

    @skel.stub(ex, r"Editor::<.*>::new$|Editor::new$", "rustyline Editor::new -> opaque")
    def ed_new(ex, callee, args, rt):
        yield Opaque("Editor", "rl")

    @skel.stub(ex, r"Editor::<.*>::readline$|Editor::readline$", "readline -> the next of K arbitrary lines (arbitrary length <= L over the alphabet), or Interrupted; then Eof")
    def readline(ex, callee, args, rt):
        k = len([e for e in ex.events if e["kind"] == "readline"])
        if k >= K:
            ex.log("readline", index=k, what="eof")
            yield Err(Adt("ReadlineError", "Eof", []))
            return
        cs, ln, kind = lines[k]
        for which in ex.branches([kind == 0, kind == 1]):
            if which == 1:
                ex.log("readline", index=k, what="interrupted")
                yield Err(Adt("ReadlineError", "Interrupted", []))
                continue
            for n in ex.branches([ln == j for j in range(L + 1)]):
                ex.log("readline", index=k, what="line", chars=tuple(cs[:n]))
                yield Ok(CharStr(tuple(cs[:n])))

    @skel.stub(ex, r"Editor::<.*>::add_history_entry|Editor::add_history_entry", "add_history_entry -> ignored")
    def hist(ex, callee, args, rt):
        yield z3.BoolVal(True)

    @skel.stub(ex, r"^(std::io::)?stdout$|^(std::io::)?_print$|^(std::io::)?_eprint$|as (std::io::)?Write>::flush$", "stdout / printing -> nothing")
    def io(ex, callee, args, rt):
        if callee.endswith("flush"):
            yield Ok(UNIT)
        elif callee.endswith("stdout"):
            yield Opaque("Stdout", "stdout")
        else:
            yield UNIT

    @skel.stub(ex, r"Interpreter::<.*>::eval(::<.*>)?$|Interpreter<.*>::eval(::<.*>)?$", "Interpreter::eval -> any value, nothing, or any error; logged with the text it is given")
    def ev(ex, callee, args, rt):
        it = ex.deref(args[1])
        text = None
        if isinstance(it, IterObj) and it.kind == "seq":
            text = tuple(c.v for c in it.seq.items[:it.seq.ln]) if isinstance(it.seq.ln, int) else None
        ex.log("eval", text=text)
        # what is printed is not the subject here: an unspecified value (nothing printed) or any error
        yield Ok(Some(Adt("Value", "Void", [])))
        yield Err(Lazy("error::Located<error::ErrorData>", "eval_error"))

    f = ex.fns["run_with_interpreter"][0]
    fcbc = ex.fns["check_bracket_closed"][0]
    it = Lazy("interpreter::Interpreter<R>", "it")

    def closed(acc):
        """the code's own completeness test on the accumulated text (decided against the reader by the Kani harness)"""
        seq = SeqObj(ex.fresh_name("acc"), "char", [Cell(c) for c in acc], len(acc), len(acc))
        for r in ex.run(fcbc, [IterObj("seq", seq=seq, pos=0, by_ref=False, mut=False)]):
            yield r

    def same_text(a, b):
        if a is None or len(a) != len(b):
            return z3.BoolVal(False)
        return z3.And(*[x == y for x, y in zip(a, b)]) if a else z3.BoolVal(True)

    def walk(evs, i, acc, post):
        """replays the session against the reference: submit exactly when the lines entered since the last submission (joined by
        line breaks) pass the completeness test, and submit exactly that text"""
        if i == len(evs):
            yield post
            return
        e = evs[i]
        if e["kind"] == "eval":
            yield post + [z3.BoolVal(False)]          # an evaluation the reference does not make here
            return
        if e["what"] == "eof":
            yield post + [z3.BoolVal(i == len(evs) - 1)]
            return
        if e["what"] == "interrupted":
            yield from walk(evs, i + 1, [], post)
            return
        if not e["chars"]:
            yield from walk(evs, i + 1, acc, post)     # an empty line changes nothing
            return
        acc2 = list(acc) + list(e["chars"])
        for r in closed(acc2):
            for b in ex.branches([r, z3.Not(r)] if not isinstance(r, bool) else [r, not r]):
                if b == 0:
                    nxt = evs[i + 1] if i + 1 < len(evs) else None
                    if nxt is None or nxt["kind"] != "eval":
                        yield post + [z3.BoolVal(False)]      # complete text not submitted
                    else:
                        yield from walk(evs, i + 2, [], post + [same_text(nxt["text"], acc2)])
                else:
                    yield from walk(evs, i + 1, acc2 + [z3.IntVal(10)], post)

    def replay(vals):
        return native_session(chk, nat, vals, K, L)

    chk.run_probes(unit, lambda nat_: session_probe(chk, nat_), nat, len(SESSION_PROBES))
    ex.panic_hook = lambda info: chk.oblige(ex, unit, "no-panic", z3.BoolVal(False), inputs, replay)
    for rv in ex.run(f, [it]):
        chk.path(unit)
        evs = [e for e in ex.events if e["kind"] in ("readline", "eval")]
        for post in walk(evs, 0, [], []):
            chk.oblige(ex, unit, "a text is submitted exactly when the lines entered since the last submission, joined by line breaks, pass the completeness test - and exactly that text; ctrl-c discards the pending lines",
                       z3.And(*post) if post else z3.BoolVal(True), inputs, replay, witness=False)


def run_session(chk, nat, lines):
    """(agrees, detail): the real binary's REPL driven over a pipe with these lines, against the reference protocol (replref)"""
    exe = chk.ws.repl_binary()
    inp = "".join(l + "\n" for l in lines)
    try:
        p = subprocess.run([exe], input=inp.encode(), capture_output=True, timeout=30)
        out, err = p.stdout.decode("utf8", "replace"), p.stderr.decode("utf8", "replace")
    except subprocess.TimeoutExpired:
        out, err = "<timeout>", ""
    body = out.split("\n", 1)[1] if "\n" in out else out
    if body.endswith("exited. have a nice day.\n"):
        body = body[:-len("exited. have a nice day.\n")]
    # over a pipe the line editor hands every line over WITH its line break
    ref = nat.cmd("replref %d %s" % (len(lines), " ".join(hexs(l + "\n") for l in lines))).split()
    if ref[:2] != ["OK", "R"]:
        return None, "reference session failed: %s" % " ".join(ref)[:100]
    want_out = "" if ref[2] == "-" else bytes.fromhex(ref[2]).decode("utf8", "replace")
    want_err = "" if ref[3] == "-" else bytes.fromhex(ref[3]).decode("utf8", "replace")
    same = body == want_out and err == want_err
    return same, "lines %r: the REPL prints %r / %r, evaluating each text as soon as it is complete prints %r / %r" % (lines, body, err, want_out, want_err)


SESSION_PROBES = [["1 2 3"], ["(define x 1) x (car x) 5", "x"], ["(define n 0)", "(set! n (+ n 1)) '", "n"], ["(+ 1 ; one", " 2)", "(* 2 3)"], ["(car 5)", "(+ 1 2)"],
                  ["(+", "", "  7 1)", "(+ 1 1)"],
                  ["(+ 1", "2)"], ["(+ 1 2)", "(+ 3", "", "4)"], [")", "(+ 1 2)"], ["(a"], ["(\"", ")\"", ")"], ["(define x 5)", "x", "(", "+ x", " 1)"], ["; (", "(+ 1 2) ; )", "#\\(", "\"(\""]]


def session_probe(chk, nat):
    for lines in SESSION_PROBES:
        same, detail = run_session(chk, nat, lines)
        if not same:
            return True, detail
    return False, "REPL sessions over a pipe agree with the reference protocol"


def native_session(chk, nat, vals, K, L):
    lines = []
    for k in range(K):
        if vals.get("line%d_kind" % k, 0) != 0:
            return False, "the counterexample needs ctrl-c, which cannot be sent over a pipe"
        n = vals["line%d_len" % k]
        lines.append("".join(chr(vals["line%d_c%d" % (k, j)]) for j in range(n)))
    same, detail = run_session(chk, nat, lines)
    if same is None:
        return False, detail
    return (not same), detail
