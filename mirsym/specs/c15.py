"""C15 - reported error locations: a SLICE at mechanism level (the evaluator's side).   (DESIGN.md section 15)
  U1  Interpreter::eval_expression on an arbitrary node: an unbound variable is reported at the identifier's own location, a call
      of a non-procedure at the OPERATOR's location, an error of a sub-evaluation is handed on unchanged (so its more precise
      location is kept);
  U2  Interpreter::eval_ast: an error that arrives without a location gets the location of the top-level form, an error that has
      one keeps it; the error's kind and payload are unchanged.
Outside: the locations the lexer and parser assign to nodes (line/column arithmetic over laid-out text), syntax errors, the
bundled sources."""
import z3

from ..core import Adt, Lazy, Ref, Cell, SeqObj, Opaque, StrVal, Tup, Unsupported
from ..harness import hexs
from ..models import Ok, Err, Some, NONE
from ..mir import ENUMS
from . import skel
from . import numlib as nl

LOC_PROBES = [
    # (program, index of the failing form, (line, column range) the reported location must fall into)
    ("(define x 1)\n(car\n   (cdr nope))\n(define y 2)", 1, (3, 9, 13)),                 # unbound variable: at the identifier (the lexer reports the column after the token)
    ("(define x 1)\n(\n   (car (list 5))\n 2)", 1, (3, 4, 18)),                              # non-procedure: at the operator (on its own line)
    ("(define (f a) (car a))\n(define z 0)\n      (f 5)", 2, None),                      # a builtin's own error: anywhere in the program text
]


def loc_probe(nat):
    import re
    for prog, k, want in LOC_PROBES:
        out = [x.strip() for x in nat.cmd("eval %s" % hexs(prog)).split(" ;; ")]
        if len(out) <= k or not out[k].startswith("ERR"):
            return True, "program %r: outcomes %s (expected an error at form %d)" % (prog, out, k)
        t = out[k].split()
        m = re.match(r"^(\d+):(\d+)$", t[2]) if len(t) > 2 else None
        if not m:
            return True, "program %r: the error carries no location: %s" % (prog, out[k][:60])
        line, col = int(m.group(1)), int(m.group(2))
        nlines = prog.count("\n") + 1
        if want is None:
            ok = 1 <= line <= nlines
        else:
            ok = line == want[0] and want[1] <= col <= want[2]
        if not ok:
            return True, "program %r: error reported at %d:%d (expected %s)" % (prog, line, col, want or "inside the program")
    return False, "native location probes: unbound variable at the identifier, non-procedure at the operator, builtin errors inside the program"


def spec_eval_expression_locations(chk):
    ex = chk.executor(True)
    nat = chk.ws.runner("dev")
    unit = "Interpreter::eval_expression: location of the errors it raises (sub-evaluations stubbed)"
    chk.region_ns = {}
    replay = lambda vals: loc_probe(nat)
    PROC = ENUMS["Value"].index("Procedure")
    ARMS = ENUMS["ExpressionBody"]

    def loc_of(node):
        return ex.project(node, ("f", 1, "std::option::Option<[u32; 2]>"))

    def on_path(rv, events, st):
        chk.path(unit)
        x = st["x"]
        if not (isinstance(rv, Adt) and rv.variant == "Err"):
            return
        err = ex.deref(rv.fields[0])
        nested = [e["error"] for e in events if e["kind"] in ("eval_err",)] + [e["error"] for e in events if e["kind"] == "set" and e.get("error") is not None]
        body = ex.project(x, ("f", 0, "parser::ExpressionBody"))
        tag = ex.lazy_tag(body)
        # an error of a sub-step is handed on as it is
        if any(err is n for n in nested) or isinstance(err, (Opaque, Lazy)):
            chk.oblige(ex, unit, "an error of a sub-evaluation is handed on unchanged", z3.BoolVal(True), {}, replay, witness=False)
            return
        if not (isinstance(err, Adt) and err.ty == "Located"):
            chk.oblige(ex, unit, "errors are located values", z3.BoolVal(False), {}, replay)
            return
        kind = nl.err_kind(ex, err)
        loc = err.fields[1]
        for arm in skel.each_value(ex, tag, range(len(ARMS))):
            arm = ARMS[arm]
            if kind == "UnboundedSymbol" and arm == "Symbol":
                good = ex.deref(loc) is ex.deref(loc_of(x))
                chk.oblige(ex, unit, "an unbound variable is reported at the identifier's own location", z3.BoolVal(bool(good)), {}, replay)
            elif kind == "TypeMisMatch" and arm == "ProcedureCall":
                op = ex.deref(ex.project(("DC", body, "ProcedureCall"), ("f", 0, "std::boxed::Box<parser::Expression>")))
                good = ex.deref(loc) is ex.deref(loc_of(op))
                chk.oblige(ex, unit, "a call of a non-procedure is reported at the operator's location", z3.BoolVal(bool(good)), {}, replay)
            else:
                good = ex.deref(loc) is ex.deref(loc_of(x))
                chk.oblige(ex, unit, "any other error raised by this step is reported at the node's own location", z3.BoolVal(bool(good)), {}, replay)

    skel.run_eval_expression(chk, ex, on_path)


def spec_eval_ast_location(chk):
    ex = chk.executor(True)
    nat = chk.ws.runner("dev")
    unit = "Interpreter::eval_ast: fallback to the top-level form's location"
    chk.region_ns = {}
    replay = lambda vals: loc_probe(nat)
    inner_loc = Lazy("std::option::Option<[u32; 2]>", "inner_location")
    data = Lazy("error::ErrorData", "inner_error_data")
    form_loc = Lazy("std::option::Option<[u32; 2]>", "form_location")

    @skel.stub(ex, r"::eval_ast_error_no_location$", "eval_ast_error_no_location -> Ok(any) or an error with an arbitrary (present or absent) location")
    def inner(ex_, callee, args, rt):
        yield Ok(Lazy("std::option::Option<values::Value<R>>", "value"))
        ex_.log("inner_err")
        yield Err(Adt("Located", None, [data, inner_loc]))

    @skel.stub(ex, r"Statement::location$", "Statement::location -> the form's location")
    def stloc(ex_, callee, args, rt):
        yield form_loc

    it = Lazy("interpreter::Interpreter<R>", "it")
    st = Lazy("parser::parser::Statement", "form")
    f = ex.fn_by_suffix("::eval_ast")
    envrc = Ref(Cell(Opaque("Environment", "env"), "env_frame"))
    ex.panic_hook = lambda info: chk.oblige(ex, unit, "no-panic", z3.BoolVal(False), {}, replay)
    for rv in ex.run(f, [Ref(Cell(it)), Ref(Cell(st)), envrc]):
        chk.path(unit)
        failed = [e for e in ex.events if e["kind"] == "inner_err"]
        if not failed:
            chk.oblige(ex, unit, "a value is handed on", z3.BoolVal(isinstance(rv, Adt) and rv.variant == "Ok"), {}, replay)
            continue
        ok = isinstance(rv, Adt) and rv.variant == "Err"
        post = [z3.BoolVal(ok)]
        if ok:
            e = ex.deref(rv.fields[0])
            good = isinstance(e, Adt) and e.ty == "Located" and ex.deref(e.fields[0]) is data
            post.append(z3.BoolVal(bool(good)))
            if good:
                got = ex.deref(e.fields[1])
                inner_some = ex.lazy_tag(inner_loc) == 1            # Option: None = 0, Some = 1
                # the location is the inner one when there is one, the form's otherwise
                if got is inner_loc:
                    post.append(inner_some)
                elif got is form_loc:
                    post.append(z3.Not(inner_some))
                elif isinstance(got, Adt) and got.ty == "Option":
                    if got.variant == "Some":
                        same_inner = ex.deref(got.fields[0]) is ex.deref(ex.project(("DC", inner_loc, "Some"), ("f", 0, "[u32; 2]")))
                        post.append(z3.And(inner_some, z3.BoolVal(bool(same_inner))))
                    else:
                        post.append(z3.BoolVal(False))
                else:
                    post.append(z3.BoolVal(False))
        chk.oblige(ex, unit, "an error keeps its kind and its own location; one without a location gets the location of the top-level form",
                   z3.And(*post), {}, replay)


def run(chk):
    chk.bounds = {"eval_expression": "an arbitrary Expression node of every kind; every error the step raises itself", "eval_ast": "an error with or without a location, a form with or without a location"}
    chk.assumptions += [
        "a mechanism-level SLICE of C15: the evaluator attaches the right NODE's location and never loses a more precise one; that nodes carry the line and column of their text (lexer / parser) is outside, as are syntax errors and the bundled sources",
        "structural counterexamples are confirmed by native programs whose failing form sits on a known line and column range",
    ]
    chk.run_probes("locations", loc_probe, chk.ws.runner("dev"), len(LOC_PROBES))
    chk.step("eval_expression locations", spec_eval_expression_locations, chk)
    chk.step("eval_ast location", spec_eval_ast_location, chk)
