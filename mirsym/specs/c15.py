"""C15 - reported error locations: a SLICE at mechanism level (the evaluator's side).   (DESIGN.md section 15)
  U1  Interpreter::eval_expression on an arbitrary node: an unbound variable is reported at the identifier's own location, a call
      of a non-procedure at the OPERATOR's location, an error of a sub-evaluation is handed on unchanged (so its more precise
      location is kept);
  U2  Interpreter::eval_ast: an error that arrives without a location gets the location of the top-level form, an error that has
      one keeps it; the error's kind and payload are unchanged.
Outside: the locations the lexer and parser assign to nodes (line/column arithmetic over laid-out text), syntax errors, the
bundled sources."""
import z3

from ..core import Adt, Lazy, Ref, Cell, SeqObj, Opaque, StrVal, Tup, Unsupported
from ..harness import hexs
from ..models import Ok, Err, Some, NONE
from ..mir import ENUMS
from . import skel
from . import numlib as nl

LOC_PROBES = [
    ("(define (area w h)\n  (* w h))\n(define z 1)\n\n(area\n   3)", 2, ("lines", 5, 6)),                        # wrong number of arguments: inside the failing form
    ("(define (scale v)\n  (* v\n     missing-factor))\n(define z 1)\n(scale\n  3)", 2, (3, 6, 21)),     # a fault inside a called procedure: at the identifier there
    # (program, index of the failing form, (line, column range) the reported location must fall into)
    ("(define x 1)\n(car\n   (cdr nope))\n(define y 2)", 1, (3, 9, 13)),                 # unbound variable: at the identifier (the lexer reports the column after the token)
    ("(define x 1)\n(\n   (car (list 5))\n 2)", 1, (3, 4, 18)),                              # non-procedure: at the operator (on its own line)
    ("(define (f a) (car a))\n(define z 0)\n      (f 5)", 2, None),                      # a builtin's own error: anywhere in the program text
]


def loc_probe(nat):
    import re
    for prog, k, want in LOC_PROBES:
        out = [x.strip() for x in nat.cmd("eval %s" % hexs(prog)).split(" ;; ")]
        if len(out) <= k or not out[k].startswith("ERR"):
            return True, "program %r: outcomes %s (expected an error at form %d)" % (prog, out, k)
        t = out[k].split()
        m = re.match(r"^(\d+):(\d+)$", t[2]) if len(t) > 2 else None
        if not m:
            return True, "program %r: the error carries no location: %s" % (prog, out[k][:60])
        line, col = int(m.group(1)), int(m.group(2))
        nlines = prog.count("\n") + 1
        if want is None:
            ok = 1 <= line <= nlines
        elif want[0] == "lines":
            ok = want[1] <= line <= want[2]
        else:
            ok = line == want[0] and want[1] <= col <= want[2]
        if not ok:
            return True, "program %r: error reported at %d:%d (expected %s)" % (prog, line, col, want or "inside the program")
    return False, "native location probes: unbound variable at the identifier, non-procedure at the operator, builtin errors inside the program"


def spec_eval_expression_locations(chk):
    ex = chk.executor(True)
    nat = chk.ws.runner("dev")
    unit = "Interpreter::eval_expression: location of the errors it raises (sub-evaluations stubbed)"
    chk.region_ns = {}
    replay = lambda vals: loc_probe(nat)
    PROC = ENUMS["Value"].index("Procedure")
    ARMS = ENUMS["ExpressionBody"]

    def loc_of(node):
        return ex.project(node, ("f", 1, "std::option::Option<[u32; 2]>"))

    def on_path(rv, events, st):
        chk.path(unit)
        x = st["x"]
        if not (isinstance(rv, Adt) and rv.variant == "Err"):
            return
        err = ex.deref(rv.fields[0])
        nested = [e["error"] for e in events if e["kind"] in ("eval_err",)] + [e["error"] for e in events if e["kind"] == "set" and e.get("error") is not None]
        body = ex.project(x, ("f", 0, "parser::ExpressionBody"))
        tag = ex.lazy_tag(body)
        # an error of a sub-step is handed on as it is
        if any(err is n for n in nested) or isinstance(err, (Opaque, Lazy)):
            chk.oblige(ex, unit, "an error of a sub-evaluation is handed on unchanged", z3.BoolVal(True), {}, replay, witness=False)
            return
        if not (isinstance(err, Adt) and err.ty == "Located"):
            chk.oblige(ex, unit, "errors are located values", z3.BoolVal(False), {}, replay)
            return
        payload = ex.deref(err.fields[0])
        if isinstance(payload, Lazy) and any(payload.name.startswith(p_) for p_ in ("apply_result", "literal_result")):
            # the payload of a sub-step's error wrapped into a NEW located error: its own (more precise) location was replaced
            chk.oblige(ex, unit, "an error of a sub-evaluation is handed on unchanged", z3.BoolVal(False), {}, replay)
            return
        kind = nl.err_kind(ex, err)
        loc = err.fields[1]
        for arm in skel.each_value(ex, tag, range(len(ARMS))):
            arm = ARMS[arm]
            if kind == "UnboundedSymbol" and arm == "Symbol":
                good = ex.deref(loc) is ex.deref(loc_of(x))
                chk.oblige(ex, unit, "an unbound variable is reported at the identifier's own location", z3.BoolVal(bool(good)), {}, replay)
            elif kind == "TypeMisMatch" and arm == "ProcedureCall":
                op = ex.deref(ex.project(("DC", body, "ProcedureCall"), ("f", 0, "std::boxed::Box<parser::Expression>")))
                good = ex.deref(loc) is ex.deref(loc_of(op))
                chk.oblige(ex, unit, "a call of a non-procedure is reported at the operator's location", z3.BoolVal(bool(good)), {}, replay)
            else:
                good = ex.deref(loc) is ex.deref(loc_of(x))
                chk.oblige(ex, unit, "any other error raised by this step is reported at the node's own location", z3.BoolVal(bool(good)), {}, replay)

    skel.run_eval_expression(chk, ex, on_path)


def spec_apply_procedure_locations(chk):
    """apply_procedure has no syntax node of the failing form at hand: an error it raises itself (wrong number of arguments) must
    not carry a location of its own - least of all one inside the called procedure's definition, which is another form - so that
    eval_ast supplies the failing form's; errors of the steps it runs are handed on unchanged"""
    ex = chk.executor(True)
    nat = chk.ws.runner("dev")
    unit = "Interpreter::apply_procedure: location of the errors it raises (callees stubbed)"
    chk.region_ns = {}
    replay = lambda vals: loc_probe(nat)

    def on_path(rv, events, ar, info):
        chk.path(unit)
        if not (isinstance(rv, Adt) and rv.variant == "Err"):
            return
        err = ex.deref(rv.fields[0])
        if isinstance(err, (Opaque, Lazy)):
            return          # a callee's error, the same object
        if not (isinstance(err, Adt) and err.ty == "Located"):
            chk.oblige(ex, unit, "errors are located values", z3.BoolVal(False), {}, replay)
            return
        payload = ex.deref(err.fields[0])
        if isinstance(payload, Lazy):
            chk.oblige(ex, unit, "an error of a callee is handed on unchanged", z3.BoolVal(False), {}, replay)
            return
        loc = ex.deref(err.fields[1])
        none = isinstance(loc, Adt) and loc.ty == "Option" and loc.variant == "None"
        chk.oblige(ex, unit, "an error raised by apply_procedure itself carries no location of its own (the failing form's is supplied by eval_ast)", z3.BoolVal(bool(none)), {}, replay)

    skel.run_apply_procedure(chk, ex, 2, on_path)


LOC_ALPHABET = ["a", "(", ")", " ", "\n", "\r", ";", "1"]


def spec_token_locations(chk, N, LOC_ALPHABET=LOC_ALPHABET):
    """the location the lexer attaches to a token is the position right after the token's last character: lines counted from 1
    and advanced by LF, columns counted from 1 and restarted after LF - for every text of <= N characters over a small alphabet
    that contains comments and both line terminators"""
    from . import lexskel
    ex = chk.executor(True)
    ex.string_mode = "chars"
    ex.loop_bound = 20
    nat = chk.ws.runner("dev")
    unit = "Lexer: token locations on every text of <= %d characters over %r" % (N, "".join(LOC_ALPHABET))
    chk.region_ns = {}
    chars = [z3.Int("c%d" % i) for i in range(N)]
    for c in chars:
        ex.ctx.add(z3.Or(*[c == ord(a) for a in LOC_ALPHABET]))
    ln = z3.Int("len")
    ex.ctx.add(ln >= 0, ln <= N)
    inputs = {"len": ln}
    for i, c in enumerate(chars):
        inputs["c%d" % i] = c
    lx, src, peek = lexskel.make_lexer(ex, chars, ln)

    def position_after(k):
        line, col = z3.IntVal(1), z3.IntVal(1)
        for i in range(k):
            line, col = z3.If(chars[i] == 10, line + 1, line), z3.If(chars[i] == 10, z3.IntVal(1), col + 1)
        return z3.simplify(line), z3.simplify(col)

    def replay(vals):
        text = "".join(chr(vals["c%d" % i]) for i in range(vals["len"]))
        out = nat.cmd("tokloc %s" % hexs(text)).split()[2:]
        toks = nat.cmd("tokdump %s" % hexs(text))
        # independent reference: end position of every token by re-lexing prefixes is not available natively; compare with the
        # positions computed from the text for the tokens the real lexer reports (token ends = where the next token search starts)
        want = []
        pos = 0
        import re as _re
        for m in _re.finditer(r'"[^"]*"|[a1]+|[()]', text) if '"' in LOC_ALPHABET else _re.finditer(r"[a1]+|[()]", _re.sub(r";[^\n\r]*", lambda mm: " " * len(mm.group(0)), text)):
            end = m.end()
            line = 1 + text[:end].count("\n")
            col = 1 + len(text[:end]) - (text[:end].rfind("\n") + 1)
            want.append("%d:%d" % (line, col))
        got = [x for x in out if x != "ERR"]
        return got != want[:len(got)] or (len(got) < len(want) and "ERR" not in out), "text %r: token locations %s, positions after the tokens %s" % (text, out, want)

    def on_end(tokens, status, err):
        chk.path(unit)
        post = []
        for tok, a, b in tokens:
            loc = ex.deref(tok.fields[1])
            if not (isinstance(loc, Adt) and loc.variant == "Some"):
                post.append(z3.BoolVal(False))
                continue
            arr = ex.deref(loc.fields[0])
            line, col = position_after(b)
            post.append(z3.And(arr.items[0].v == line, arr.items[1].v == col))
        chk.oblige(ex, unit, "every token's location is the line and column right after its last character", z3.And(*post) if post else z3.BoolVal(True), inputs, replay)

    ex.panic_hook = lambda info: None
    lexskel.run_tokens(ex, lx, src, peek, N + 1, on_end)


def spec_eval_ast_location(chk):
    ex = chk.executor(True)
    nat = chk.ws.runner("dev")
    unit = "Interpreter::eval_ast: fallback to the top-level form's location"
    chk.region_ns = {}
    replay = lambda vals: loc_probe(nat)
    inner_loc = Lazy("std::option::Option<[u32; 2]>", "inner_location")
    data = Lazy("error::ErrorData", "inner_error_data")
    form_loc = Lazy("std::option::Option<[u32; 2]>", "form_location")

    @skel.stub(ex, r"::eval_ast_error_no_location$", "eval_ast_error_no_location -> Ok(any) or an error with an arbitrary (present or absent) location")
    def inner(ex_, callee, args, rt):
        yield Ok(Lazy("std::option::Option<values::Value<R>>", "value"))
        ex_.log("inner_err")
        yield Err(Adt("Located", None, [data, inner_loc]))

    @skel.stub(ex, r"Statement::location$", "Statement::location -> the form's location")
    def stloc(ex_, callee, args, rt):
        yield form_loc

    it = Lazy("interpreter::Interpreter<R>", "it")
    st = Lazy("parser::parser::Statement", "form")
    f = ex.fn_by_suffix("::eval_ast")
    envrc = Ref(Cell(Opaque("Environment", "env"), "env_frame"))
    ex.panic_hook = lambda info: chk.oblige(ex, unit, "no-panic", z3.BoolVal(False), {}, replay)
    for rv in ex.run(f, [Ref(Cell(it)), Ref(Cell(st)), envrc]):
        chk.path(unit)
        failed = [e for e in ex.events if e["kind"] == "inner_err"]
        if not failed:
            chk.oblige(ex, unit, "a value is handed on", z3.BoolVal(isinstance(rv, Adt) and rv.variant == "Ok"), {}, replay)
            continue
        ok = isinstance(rv, Adt) and rv.variant == "Err"
        post = [z3.BoolVal(ok)]
        if ok:
            e = ex.deref(rv.fields[0])
            good = isinstance(e, Adt) and e.ty == "Located" and ex.deref(e.fields[0]) is data
            post.append(z3.BoolVal(bool(good)))
            if good:
                got = ex.deref(e.fields[1])
                inner_some = ex.lazy_tag(inner_loc) == 1            # Option: None = 0, Some = 1
                # the location is the inner one when there is one, the form's otherwise
                if got is inner_loc:
                    post.append(inner_some)
                elif got is form_loc:
                    post.append(z3.Not(inner_some))
                elif isinstance(got, Adt) and got.ty == "Option":
                    if got.variant == "Some":
                        same_inner = ex.deref(got.fields[0]) is ex.deref(ex.project(("DC", inner_loc, "Some"), ("f", 0, "[u32; 2]")))
                        post.append(z3.And(inner_some, z3.BoolVal(bool(same_inner))))
                    else:
                        post.append(z3.BoolVal(False))
                else:
                    post.append(z3.BoolVal(False))
        chk.oblige(ex, unit, "an error keeps its kind and its own location; one without a location gets the location of the top-level form",
                   z3.And(*post), {}, replay)


def run(chk):
    chk.bounds = {"eval_expression": "an arbitrary Expression node of every kind; every error the step raises itself", "eval_ast": "an error with or without a location, a form with or without a location"}
    chk.assumptions += [
        "a mechanism-level SLICE of C15: the evaluator attaches the right NODE's location and never loses a more precise one; that nodes carry the line and column of their text (lexer / parser) is outside, as are syntax errors and the bundled sources",
        "structural counterexamples are confirmed by native programs whose failing form sits on a known line and column range",
    ]
    chk.run_probes("locations", loc_probe, chk.ws.runner("dev"), len(LOC_PROBES))
    chk.step("eval_expression locations", spec_eval_expression_locations, chk)
    chk.step("apply_procedure locations", spec_apply_procedure_locations, chk)
    chk.step("eval_ast location", spec_eval_ast_location, chk)
    chk.step("token locations", spec_token_locations, chk, 5 if chk.tier == "thorough" else 4)
    # string literals may span lines: the tokens after them are still located by the text (alphabet without comments)
    chk.step("token locations after string literals", spec_token_locations, chk, 6 if chk.tier == "thorough" else 5, ["a", '"', "\n", " "])
