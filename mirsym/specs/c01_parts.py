"""obligations on the apply_scheme_procedure / eval_expression / eval_tail_expression skeletons, shared by C01, C02, C03, C08"""
import z3

from ..core import Adt, Lazy, Ref, Cell, SeqObj, Opaque, Unsupported
from . import skel
from . import numlib as nl


def spec_apply_scheme(chk, unit_prefix="", want=("fresh", "bind", "order", "tail", "nopanic")):
    ex = chk.executor(True)
    nat = chk.ws.runner("dev")
    unit = unit_prefix + "Interpreter::apply_scheme_procedure (sub-evaluations stubbed)"
    chk.region_ns = {}

    def inputs_of(st):
        return {"fixed": st["fx"], "variadic": st["va"], "nargs": skel.seq_len_term(st["args"]), "ndefs": st["nd"], "nbody": st["nb"]}

    def replay(vals):
        return skel.scheme_shape_probe(nat, vals["fixed"], vals["variadic"], vals["nargs"], vals["ndefs"], vals["nbody"])

    def on_path(rv, events, st):
        chk.path(unit)
        inputs = inputs_of(st)
        fx, va, nd, nb = st["fx"], st["va"], st["nd"], st["nb"]
        nargs = skel.seq_len_term(st["args"])
        evs = [e for e in events if e["kind"] in ("eval", "eval_tail")]
        oks = [e for e in events if e["kind"] == "eval_ok"]
        errs = [e for e in events if e["kind"] == "eval_err"]
        closure_cell = st["closure_rc"].cell
        # ---- fresh frame per call
        if "fresh" in want and evs:
            cells = set(id(e["env"]) for e in evs)
            c = evs[0]["env"]
            scope = c.v
            ok = (len(cells) == 1 and c is not closure_cell and isinstance(scope, Adt) and scope.ty == "LexicalScope"
                  and isinstance(scope.fields[0], Adt) and scope.fields[0].variant == "Some" and scope.fields[0].fields[0].cell is closure_cell
                  and (c.name or "").startswith("heap") and scope.fields[1] is not closure_cell.v.fields[1])
            chk.oblige(ex, unit, "every body/definition expression is evaluated in ONE frame allocated in this call whose parent is the closure's frame (never the closure's frame itself)",
                       z3.BoolVal(ok), inputs, replay)
            # nothing was written into the closure's own frame
            chk.oblige(ex, unit, "the call defines nothing in the closure's frame", z3.BoolVal(len(closure_cell.v.fields[1].entries) == 0), inputs, replay)
        # ---- binding of formals
        if "bind" in want and evs:
            m = evs[0]["env"].v.fields[1] if isinstance(evs[0]["env"].v, Adt) else None
            post = []
            if m is None:
                post.append(z3.BoolVal(False))
            else:
                byname = {}
                for (k, p, cell) in m.entries:
                    byname[k.concrete()] = (p, cell.v)
                for i, nm in enumerate(st["names"]):
                    if nm in byname:
                        p, v = byname[nm]
                        post.append(z3.And(fx > i, z3.BoolVal(v is ex.seq_item(st["args"], i).v)))
                    else:
                        post.append(fx <= i)
                if "rest" in byname:
                    p, v = byname["rest"]
                    lst = None
                    if isinstance(v, Adt) and v.variant == "Pair":
                        b = ex.deref(v.fields[0])
                        lst = b if isinstance(b, Adt) and b.ty == "ListOf" else None
                    good = lst is not None
                    post.append(va)
                    if good:
                        k = len(lst.fields)
                        post.append(nargs - fx == k)
                        # the rest list holds the remaining arguments in order
                        for j, item in enumerate(lst.fields):
                            post.append(z3.Or(*[z3.And(fx == base, z3.BoolVal(item is ex.seq_item(st["args"], base + j).v)) for base in range(skel.MAXARGS + 1 - j) if base + j < skel.MAXARGS] or [z3.BoolVal(False)]))
                    else:
                        post.append(z3.BoolVal(False))
                else:
                    post.append(z3.Not(va))
            chk.oblige(ex, unit, "the i-th fixed formal is bound to the i-th argument and the rest formal to the list of the remaining arguments in order",
                       z3.And(*post), inputs, replay, pre=skel.arity_ok(fx, va, nargs))
        # ---- order, multiplicity, visibility of internal definitions, tail position
        if "order" in want:
            exp_objs = []
            post = []
            params = None
            for i, e in enumerate(evs):
                # position i must be: def i (i < nd), body i-nd
                cands = []
                for d in range(st["defs"].max):
                    if e["expr"] is st["defs"].items[d].v.fields[0].fields[1]:
                        need_bound = set("d%d" % j for j in range(d))
                        vis = e["bound"] is not None and need_bound <= e["bound"] and ("d%d" % d) not in e["bound"]
                        cands.append(z3.And(nd > d, z3.BoolVal(i == d), z3.BoolVal(vis), z3.BoolVal(e["kind"] == "eval")))
                for b in range(st["body"].max):
                    if e["expr"] is st["body"].items[b].v:
                        is_last = (nb == b + 1)
                        alld = [z3.Or(nd <= j, z3.BoolVal(e["bound"] is not None and ("d%d" % j) in e["bound"])) for j in range(st["defs"].max)]
                        cands.append(z3.And(nb > b, nd + b == i, z3.And(*alld), z3.BoolVal(e["kind"] == "eval_tail") == is_last))
                post.append(z3.Or(*cands) if cands else z3.BoolVal(False))
            n_ev = len(evs)
            if errs:
                # the first failing sub-evaluation ends the call with that error
                is_err = isinstance(rv, Adt) and rv.variant == "Err" and rv.fields[0] is errs[0]["error"]
                post.append(z3.BoolVal(is_err and len(errs) == 1 and events[-1]["kind"] == "eval_err"))
            else:
                last = evs[-1] if evs else None
                post.append(z3.BoolVal(last is not None and last["kind"] == "eval_tail" and rv is last.get("result")))
                post.append(nd + nb == n_ev)
            chk.oblige(ex, unit, "internal definitions are evaluated in order before any body expression and are visible to the whole body; body expressions in order, each once, the last one in tail position; the first error ends the call",
                       z3.And(*post), inputs, replay, pre=skel.arity_ok(fx, va, nargs))

    def on_panic(info):
        st = holder["st"]
        if "nopanic" in want:
            chk.oblige(ex, unit, "binding the formals cannot fail once the argument count fits (and does fail otherwise)", z3.BoolVal(False), inputs_of(st),
                       lambda vals: (False, "panic inside apply_scheme_procedure with a fitting argument count (structural)"), pre=skel.arity_ok(st["fx"], st["va"], skel.seq_len_term(st["args"])))
        chk.unit(unit)["panic_outcomes"] += 1

    holder = {}
    ex.panic_hook = on_panic

    def wrapped(rv, events, st):
        holder["st"] = st
        on_path(rv, events, st)

    st = skel.run_apply_scheme(chk, ex, wrapped, holder=holder)
    if chk.unit(unit)["panic_outcomes"] == 0:
        chk.notes.append("apply_scheme_procedure: no panic outcome at all - the witness that a non-fitting argument count makes the binding loop fail is missing")
    return st
