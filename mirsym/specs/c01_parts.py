"""obligations on the apply_scheme_procedure / eval_expression / eval_tail_expression skeletons, shared by C01, C02, C03, C08"""
import z3

from ..core import Adt, Lazy, Ref, Cell, SeqObj, Opaque, Unsupported, StrVal
from . import skel
from . import numlib as nl


def spec_apply_scheme(chk, unit_prefix="", want=("fresh", "bind", "order", "tail", "nopanic"), extra_probe=None):
    ex = chk.executor(True)
    nat = chk.ws.runner("dev")
    unit = unit_prefix + "Interpreter::apply_scheme_procedure (sub-evaluations stubbed)"
    chk.region_ns = {}

    def inputs_of(st):
        return {"fixed": st["fx"], "variadic": st["va"], "nargs": skel.seq_len_term(st["args"]), "ndefs": st["nd"], "nbody": st["nb"]}

    def replay(vals):
        bad, detail = skel.scheme_shape_probe(nat, vals["fixed"], vals["variadic"], vals["nargs"], vals["ndefs"], vals["nbody"])
        if not bad and extra_probe is not None:
            bad, detail = extra_probe(nat)
        return bad, detail

    def on_path(rv, events, st):
        chk.path(unit)
        inputs = inputs_of(st)
        fx, va, nd, nb = st["fx"], st["va"], st["nd"], st["nb"]
        nargs = skel.seq_len_term(st["args"])
        evs = [e for e in events if e["kind"] in ("eval", "eval_tail")]
        oks = [e for e in events if e["kind"] == "eval_ok"]
        errs = [e for e in events if e["kind"] == "eval_err"]
        closure_cell = st["closure_rc"].cell
        # ---- fresh frame per call
        if "fresh" in want and evs:
            cells = set(id(e["env"]) for e in evs)
            c = evs[0]["env"]
            scope = c.v
            ok = (len(cells) == 1 and c is not closure_cell and isinstance(scope, Adt) and scope.ty == "LexicalScope"
                  and isinstance(scope.fields[0], Adt) and scope.fields[0].variant == "Some" and scope.fields[0].fields[0].cell is closure_cell
                  and (c.name or "").startswith("heap") and scope.fields[1] is not closure_cell.v.fields[1])
            chk.oblige(ex, unit, "every body/definition expression is evaluated in ONE frame allocated in this call whose parent is the closure's frame (never the closure's frame itself)",
                       z3.BoolVal(ok), inputs, replay)
            # nothing was written into the closure's own frame
            chk.oblige(ex, unit, "the call defines nothing in the closure's frame", z3.BoolVal(len(closure_cell.v.fields[1].entries) == 0), inputs, replay)
        # ---- binding of formals
        if "bind" in want and evs:
            m = evs[0]["env"].v.fields[1] if isinstance(evs[0]["env"].v, Adt) else None
            post = []
            if m is None:
                post.append(z3.BoolVal(False))
            else:
                byname = {}
                for (k, p, cell) in m.entries:
                    byname[k.concrete()] = (p, cell.v)
                for i, nm in enumerate(st["names"]):
                    if nm in byname:
                        p, v = byname[nm]
                        post.append(z3.And(fx > i, z3.BoolVal(v is ex.seq_item(st["args"], i).v)))
                    else:
                        post.append(fx <= i)
                if "rest" in byname:
                    p, v = byname["rest"]
                    lst = None
                    if isinstance(v, Adt) and v.variant == "Pair":
                        b = ex.deref(v.fields[0])
                        lst = b if isinstance(b, Adt) and b.ty == "ListOf" else None
                    good = lst is not None
                    post.append(va)
                    if good:
                        k = len(lst.fields)
                        post.append(nargs - fx == k)
                        # the rest list holds the remaining arguments in order
                        for j, item in enumerate(lst.fields):
                            post.append(z3.Or(*[z3.And(fx == base, z3.BoolVal(item is ex.seq_item(st["args"], base + j).v)) for base in range(skel.MAXARGS + 1 - j) if base + j < skel.MAXARGS] or [z3.BoolVal(False)]))
                    else:
                        post.append(z3.BoolVal(False))
                else:
                    post.append(z3.Not(va))
            chk.oblige(ex, unit, "the i-th fixed formal is bound to the i-th argument and the rest formal to the list of the remaining arguments in order",
                       z3.And(*post), inputs, replay, pre=skel.arity_ok(fx, va, nargs))
        # ---- order, multiplicity, visibility of internal definitions, tail position
        if "order" in want:
            exp_objs = []
            post = []
            params = None
            for i, e in enumerate(evs):
                # position i must be: def i (i < nd), body i-nd
                cands = []
                for d in range(st["defs"].max):
                    if e["expr"] is st["defs"].items[d].v.fields[0].fields[1]:
                        need_bound = set("d%d" % j for j in range(d))
                        vis = e["bound"] is not None and need_bound <= e["bound"] and ("d%d" % d) not in e["bound"]
                        cands.append(z3.And(nd > d, z3.BoolVal(i == d), z3.BoolVal(vis), z3.BoolVal(e["kind"] == "eval")))
                for b in range(st["body"].max):
                    if e["expr"] is st["body"].items[b].v:
                        is_last = (nb == b + 1)
                        alld = [z3.Or(nd <= j, z3.BoolVal(e["bound"] is not None and ("d%d" % j) in e["bound"])) for j in range(st["defs"].max)]
                        cands.append(z3.And(nb > b, nd + b == i, z3.And(*alld), z3.BoolVal(e["kind"] == "eval_tail") == is_last))
                post.append(z3.Or(*cands) if cands else z3.BoolVal(False))
            n_ev = len(evs)
            if errs:
                # the first failing sub-evaluation ends the call with that error
                is_err = isinstance(rv, Adt) and rv.variant == "Err" and rv.fields[0] is errs[0]["error"]
                post.append(z3.BoolVal(is_err and len(errs) == 1 and events[-1]["kind"] == "eval_err"))
            else:
                last = evs[-1] if evs else None
                post.append(z3.BoolVal(last is not None and last["kind"] == "eval_tail" and rv is last.get("result")))
                post.append(nd + nb == n_ev)
            chk.oblige(ex, unit, "internal definitions are evaluated in order before any body expression and are visible to the whole body; body expressions in order, each once, the last one in tail position; the first error ends the call",
                       z3.And(*post), inputs, replay, pre=skel.arity_ok(fx, va, nargs))

    def on_panic(info):
        st = holder["st"]
        if "nopanic" in want:
            chk.oblige(ex, unit, "binding the formals cannot fail once the argument count fits (and does fail otherwise)", z3.BoolVal(False), inputs_of(st),
                       lambda vals: (False, "panic inside apply_scheme_procedure with a fitting argument count (structural)"), pre=skel.arity_ok(st["fx"], st["va"], skel.seq_len_term(st["args"])))
        chk.unit(unit)["panic_outcomes"] += 1

    holder = {}
    ex.panic_hook = on_panic

    def wrapped(rv, events, st):
        holder["st"] = st
        on_path(rv, events, st)

    st = skel.run_apply_scheme(chk, ex, wrapped, holder=holder)
    if chk.unit(unit)["panic_outcomes"] == 0:
        chk.notes.append("apply_scheme_procedure: no panic outcome at all - the witness that a non-fitting argument count makes the binding loop fail is missing")
    return st


# ================================================================================================ eval_expression
EVAL_PROBES = [
    # operands evaluated left to right, each exactly once, operator first
    ("(define log (make-vector 6 0)) (define n 0) (define (tick k) (vector-set! log n k) (set! n (+ n 1)) k)\n((begin (tick 1) +) (tick 2) (tick 3) (tick 4))\nlog",
     ["OK I 9", "OK VM 6 I 1 I 2 I 3 I 4 I 0 I 0"]),
    # only #f is false
    ("(vector (if 0 1 2) (if '() 1 2) (if \"\" 1 2) (if #f 1 2) (if (vector) 1 2))", ["OK VM 5 I 1 I 1 I 1 I 2 I 1"]),
    # exactly one arm is evaluated; a missing alternative gives the unspecified value
    ("(define c 0)\n(if #t (set! c (+ c 1)) (set! c (+ c 10)))\n(if #f (set! c (+ c 100)))\nc", ["OK U", "OK U", "OK I 1"]),
    # non-procedure operator, unbound variable, assignment to an unbound variable
    ("(5 1 2)", ["ERR TypeMisMatch"]), ("nosuch", ["ERR UnboundedSymbol"]), ("(set! nosuch 1)", ["ERR UnboundedSymbol"]), ("((lambda (x) (car x)) 5)", ["ERR TypeMisMatch"]),
    # lexical scope of closures and assignment
    ("(define x 1) (define (mk) (define x 10) (lambda () (set! x (+ x 1)) x)) (define f (mk))\n(f)\n(f)\nx", ["OK I 11", "OK I 12", "OK I 1"]),
    # quote and literals are not evaluated
    ("'(a (b c) 1)", ["OK L 3 Y 61 L 2 Y 62 Y 63 I 1"]), ("(quote x)", ["OK Y 78"]),
    # apply spreads its last argument
    ("(apply + 1 2 '(3 4))", ["OK I 10"]), ("(apply - 10 1 '(2 3))", ["OK I 4"]), ("(apply vector 1 2 '(3 4))", ["OK VM 4 I 1 I 2 I 3 I 4"]),
    # a one-armed if takes its branch for every value other than #f
    ("(vector (if 0 7) (+ 1 (if '() 7)) (if \"\" 7))", ["OK VM 3 I 7 I 8 I 7"]),
    ("(define (f) (if 0 7) (if 1 8))\n(f)", ["OK I 8"]), ("(apply (lambda (a . r) r) 1 '(2 3))", ["OK L 2 I 2 I 3"]), ("(apply + 1 2)", ["ERR TypeMisMatch"]),
    # an error in an operand stops the evaluation of the later ones
    ("(define c 0)\n(+ 1 (car 5) (begin (set! c 1) 2))\nc", ["OK -", "ERR TypeMisMatch", "OK I 0"]),
    # literal vectors (quoted or not) are immutable, constructed ones are not
    ("(define v #(1 2 3))\n(vector-set! v 0 9)\n(define q '#(1 2))\n(vector-set! q 0 9)\n(define m (vector 1 2))\n(vector-set! m 0 9)\nm", ["OK -", "ERR RequiresMutable", "OK -", "ERR RequiresMutable", "OK -", "OK U", "OK VM 2 I 9 I 2"]),
    # a failing definition defines nothing
    ("(define v (vector 1))\n(define x (vector-ref v 7))\nx\n(set! x 1)\n(define y y)\ny", ["OK -", "ERR VectorIndexOutOfBounds", "ERR UnboundedSymbol", "ERR UnboundedSymbol", "ERR UnboundedSymbol", "ERR UnboundedSymbol"]),
    # closures of the same lambda created by different calls keep their own environment, also across tail calls between them
    ("(define (make n) (lambda (next) (if next (next #f) n)))\n((make 1) (make 2))", ["OK -", "OK I 2"]),
]
_EP = {}


def eval_probe(nat):
    if id(nat) in _EP:
        return _EP[id(nat)]
    from ..harness import hexs
    res = (False, "native evaluator probes (operand order and multiplicity, truthiness, single arm, error kinds, scope, quote, apply) all behave correctly")
    for prog, want in EVAL_PROBES:
        out = [x.strip() for x in nat.cmd("eval %s" % hexs(prog)).split(" ;; ")]
        got = [(" ".join(o.split()[:2]) if o.startswith("ERR") else o) for o in out[-len(want):]]
        if got != want:
            res = (True, "program %r gives %s (expected %s)" % (prog, got, want))
            break
    _EP[id(nat)] = res
    return res


def spec_eval_expression(chk, want=("all",)):
    from ..mir import ENUMS
    ex = chk.executor(True)
    nat = chk.ws.runner("dev")
    unit = "Interpreter::eval_expression (one structural step; sub-evaluations, apply_procedure, environment access stubbed)"
    chk.region_ns = {}
    replay = lambda vals: eval_probe(nat)
    ARMS = ENUMS["ExpressionBody"]
    BOOL = ENUMS["Value"].index("Boolean")
    PROC = ENUMS["Value"].index("Procedure")

    def on_path(rv, events, st):
        chk.path(unit)
        x = st["x"]
        envcell = st["envcell"]
        body = ex.project(x, ("f", 0, "parser::ExpressionBody"))
        tag = ex.lazy_tag(body)
        arm = None
        for i, a in enumerate(ARMS):
            if ex.ctx.check(tag == i) == z3.sat:
                arm = a
                break
        evs = [e for e in events if e["kind"] == "eval"]
        oks = [e for e in events if e["kind"] == "eval_ok"]
        errs = [e for e in events if e["kind"] == "eval_err"]
        applies = [e for e in events if e["kind"] == "apply"]
        gets = [e for e in events if e["kind"] == "get"]
        sets = [e for e in events if e["kind"] == "set"]
        lits = [e for e in events if e["kind"] == "literal"]
        post = [z3.BoolVal(all(e["env"] is envcell for e in evs + applies + gets + sets))]
        is_ok = isinstance(rv, Adt) and rv.variant == "Ok"
        is_err = isinstance(rv, Adt) and rv.variant == "Err"
        err_kind = nl.err_kind(ex, rv.fields[0]) if is_err and not isinstance(rv.fields[0], Opaque) else None
        label = "eval_expression/%s" % arm
        pfx = "x.0.%s" % arm
        if arm == "ProcedureCall":
            operands = ex.deref(ex.project(("DC", body, "ProcedureCall"), ("f", 1, "std::vec::Vec<parser::Expression>")))
            n = skel.seq_len_term(operands)
            names_ok = all(e["expr"] == (pfx + ".0" if i == 0 else "%s.1[%d]" % (pfx, i - 1)) for i, e in enumerate(evs))
            post.append(z3.BoolVal(names_ok))           # operator first, operands left to right, each at most once
            post.append(z3.BoolVal(len(gets) == 0 and len(sets) == 0 and len(lits) == 0 and len(applies) <= 1))
            if errs:
                post.append(z3.BoolVal(len(errs) == 1 and not applies and is_err))
                j = len(evs) - 1
                if j == 0:
                    post.append(z3.BoolVal(rv.fields[0] is errs[0]["error"]))
                else:
                    post.append(z3.BoolVal(rv.fields[0] is errs[0]["error"] or err_kind == "TypeMisMatch"))
            else:
                post.append(z3.IntVal(len(evs)) == n + 1)       # every operand was evaluated
                opv = oks[0]["value"]
                is_proc = ex.lazy_tag(opv) == PROC
                if applies:
                    a = applies[0]
                    payload = ex.project(("DC", opv, "Procedure"), ("f", 0, "values::Procedure<R>"))
                    argv = a["args"]
                    same_args = isinstance(argv, SeqObj) and isinstance(argv.ln, int) and argv.ln == len(oks) - 1 and all(argv.items[i].v is oks[i + 1]["value"] for i in range(argv.ln))
                    post.append(z3.And(is_proc, z3.BoolVal(a["proc"] is payload), z3.BoolVal(same_args)))
                    # the call's result is the result of the application
                    res = a["result"]
                    if is_ok:
                        post.append(z3.BoolVal(rv.fields[0] is ex.project(("DC", res, "Ok"), ("f", 0, "values::Value<R>"))))
                    else:
                        post.append(z3.BoolVal(is_err and rv.fields[0] is ex.project(("DC", res, "Err"), ("f", 0, "error::Located<error::ErrorData>"))))
                else:
                    loc_ok = False
                    if is_err and err_kind == "TypeMisMatch":
                        e = ex.deref(rv.fields[0])
                        loc_ok = skel.name_of(ex, e.fields[1]) == pfx + ".0.1" or getattr(e.fields[1], "name", None) == pfx + ".0.1"
                    post.append(z3.And(z3.Not(is_proc), z3.BoolVal(is_err and err_kind == "TypeMisMatch" and loc_ok)))
        elif arm == "Conditional":
            names = [e["expr"] for e in evs]
            post.append(z3.BoolVal(bool(names) and names[0] == pfx + ".0.0" and len(names) <= 2 and not applies and not gets and not sets and not lits))
            if errs:
                post.append(z3.BoolVal(is_err and rv.fields[0] is errs[0]["error"] and events[-1]["kind"] == "eval_err"))
            else:
                tv = oks[0]["value"]
                is_false = z3.And(ex.lazy_tag(tv) == BOOL, z3.Not(ex.project(("DC", tv, "Boolean"), ("f", 0, "bool"))))
                if len(names) == 2:
                    if names[1] == pfx + ".0.1":
                        post.append(z3.Not(is_false))
                    elif names[1] == pfx + ".0.2.Some.0":
                        post.append(is_false)
                    else:
                        post.append(z3.BoolVal(False))
                    post.append(z3.BoolVal(is_ok and rv.fields[0] is oks[1]["value"]))
                else:
                    alt = ex.project(ex.deref(ex.project(("DC", body, "Conditional"), ("f", 0, "?"))), ("f", 2, "?")) if False else None
                    post.append(is_false)
                    post.append(z3.BoolVal(is_ok and isinstance(rv.fields[0], Adt) and rv.fields[0].variant == "Void"))
        elif arm == "Symbol":
            post.append(z3.BoolVal(len(gets) == 1 and not evs and not applies and not sets and getattr(gets[0]["name"], "t", None) is not None))
            if gets:
                nm = gets[0]["name"]
                ident = ex.project(("DC", body, "Symbol"), ("f", 0, "std::string::String"))
                post.append(z3.BoolVal(nm is ident or (hasattr(nm, "t") and hasattr(ident, "t") and nm.t.eq(ident.t))))
                if is_ok:
                    post.append(z3.BoolVal(rv.fields[0] is gets[0]["value"]))
                else:
                    loc = ex.deref(rv.fields[0]).fields[1] if is_err and err_kind else None
                    post.append(z3.BoolVal(err_kind == "UnboundedSymbol" and getattr(loc, "name", None) == "x.1"))
        elif arm == "Assignment":
            post.append(z3.BoolVal(len(evs) == 1 and evs[0]["expr"].startswith(pfx + ".1") and not applies and not gets and len(sets) <= 1))
            if errs:
                post.append(z3.BoolVal(is_err and rv.fields[0] is errs[0]["error"] and not sets))
            elif sets:
                post.append(z3.BoolVal(sets[0]["value"] is oks[0]["value"]))
                if is_ok:
                    post.append(z3.BoolVal(isinstance(rv.fields[0], Adt) and rv.fields[0].variant == "Void"))
                else:
                    post.append(z3.BoolVal(rv.fields[0] is sets[0]["error"]))
            else:
                post.append(z3.BoolVal(False))
        elif arm == "Procedure":
            good = False
            if is_ok and isinstance(rv.fields[0], Adt) and rv.fields[0].variant == "Procedure":
                p = rv.fields[0].fields[0]
                if isinstance(p, Adt) and p.variant == "User":
                    lam, env2 = p.fields
                    good = getattr(lam, "name", None) == pfx + ".0" and isinstance(env2, Ref) and env2.cell is envcell
            post.append(z3.BoolVal(good and not events))
        elif arm in ("Quote", "Datum", "Primitive"):
            good = len(lits) == 1 and len(events) == 1 and (lits[0]["datum"] or "").startswith(pfx + ".0")
            if good:
                res = lits[0]["result"]
                if is_ok:
                    good = rv.fields[0] is ex.project(("DC", res, "Ok"), ("f", 0, "values::Value<R>"))
                else:
                    good = is_err and rv.fields[0] is ex.project(("DC", res, "Err"), ("f", 0, "error::Located<error::ErrorData>"))
            post.append(z3.BoolVal(good))
        elif arm == "Period":
            post.append(z3.BoolVal(is_err and err_kind == "UnexpectedExpression" and not events))
        else:
            post.append(z3.BoolVal(False))
        chk.oblige(ex, unit, label + ": sub-forms evaluated exactly once in the prescribed order in the same environment; result/error as the evaluation rules prescribe", z3.And(*post), {}, replay)

    ex.panic_hook = lambda info: chk.oblige(ex, unit, "no-panic", z3.BoolVal(False), {}, replay)
    skel.run_eval_expression(chk, ex, on_path)


# ================================================================================================ native `apply`
def spec_native_apply(chk, tail_finding=False):
    from ..mir import ENUMS
    from ..core import IterObj
    nat = chk.ws.runner("dev")
    unit = "builtin apply (apply_procedure stubbed)"
    chk.region_ns = {}
    replay = lambda vals: eval_probe(nat)
    PROC = ENUMS["Value"].index("Procedure")
    PAIR = ENUMS["Value"].index("Pair")
    for k in range(0, 3):
        for last_kind in ("none", "list0", "list1", "list2", "nonlist"):
            if last_kind == "none" and k > 0:
                continue
            ex = chk.executor(True)

            @skel.stub(ex, r"::apply_procedure$", "apply_procedure -> an opaque result, passed through; logged")
            def apply_proc(ex, callee, args, rt):
                r = Lazy("std::result::Result<values::Value<R>, error::Located<error::ErrorData>>", "apply_result")
                ex.log("apply", proc=ex.deref(args[0]), args=ex.deref(args[1]), env=args[2], result=r)
                yield r

            @skel.stub(ex, r"GenericPair<values::Value<R>> as IntoIterator>::into_iter$", "iteration over a list value: its elements in order (GenericPair's iterator is not encoded here)")
            def pair_iter(ex, callee, args, rt):
                lst = ex.deref(args[0])
                if not (isinstance(lst, Adt) and lst.ty == "ListOf"):
                    raise Unsupported("into_iter of %r" % (lst,))
                yield IterObj("seq", seq=SeqObj("listitems", "?", [Cell(x) for x in lst.fields], len(lst.fields), len(lst.fields)), pos=0, by_ref=False, mut=False)

            procv = Lazy("values::Value<R>", "procv")
            leads = [Lazy("values::Value<R>", "lead%d" % i) for i in range(k)]
            items = []
            vals = [procv] + leads
            if last_kind.startswith("list"):
                m = int(last_kind[4:])
                items = [Lazy("values::Value<R>", "item%d" % i) for i in range(m)]
                vals.append(Adt("Value", "Pair", [Ref(Cell(Adt("ListOf", None, items)))]))
            elif last_kind == "nonlist":
                nl_ = Lazy("values::Value<R>", "lastv")
                ex.ctx.add(ex.lazy_tag(nl_) != PAIR)
                vals.append(nl_)
            seq = SeqObj("args", "values::Value<R>", [Cell(v) for v in vals], len(vals), len(vals))
            envrc = Ref(Cell(Opaque("Environment", "env"), "apply_env"))
            f = ex.resolve("apply")
            ex.panic_hook = lambda info, ex=ex: chk.oblige(ex, unit, "no-panic", z3.BoolVal(False), {}, replay)
            for rv in ex.run(f, [seq, envrc]):
                chk.path(unit)
                aps = [e for e in ex.events if e["kind"] == "apply"]
                is_proc = ex.lazy_tag(procv) == PROC
                is_err = isinstance(rv, Adt) and rv.variant == "Err"
                kind = nl.err_kind(ex, rv.fields[0]) if is_err and not isinstance(rv.fields[0], Opaque) else None
                post = []
                if aps:
                    a = aps[0]
                    want = leads + items
                    argv = a["args"]
                    same = isinstance(argv, SeqObj) and isinstance(argv.ln, int) and argv.ln == len(want) and all(argv.items[i].v is want[i] for i in range(len(want)))
                    payload = ex.project(("DC", procv, "Procedure"), ("f", 0, "values::Procedure<R>"))
                    post += [is_proc, z3.BoolVal(len(aps) == 1 and same and a["proc"] is payload and rv is a["result"] and last_kind != "nonlist")]
                else:
                    post.append(z3.BoolVal(is_err and kind == "TypeMisMatch"))
                    post.append(z3.Or(z3.Not(is_proc), z3.BoolVal(last_kind == "nonlist")))
                chk.oblige(ex, unit, "apply passes the leading arguments followed by the elements of the last (list) argument, in order, to ONE application of the procedure; non-procedure / non-list => TypeMisMatch",
                           z3.And(*post), {}, replay)
                if tail_finding and aps:
                    # C02: the procedure handed to apply is entered by a nested apply_procedure (a Rust-level recursion), not handed back to the trampoline
                    chk.oblige(ex, unit, "the procedure handed to apply is not entered through a nested evaluator call", z3.BoolVal(False), {"always": z3.BoolVal(True)}, lambda vals: apply_tail_probe(nat))


_ATP = {}


def apply_tail_probe(nat):
    if id(nat) not in _ATP:
        from ..harness import hexs
        prog = "(define (loop n) (if (= n 0) 'done (apply loop (list (- n 1)))))\n(loop 200000)"
        out = [x.strip() for x in nat.cmd("eval %s" % hexs(prog)).split(" ;; ")]
        bad = out[-1] != "OK Y " + "done".encode().hex()
        _ATP[id(nat)] = (bad, "program %r gives %s (a loop whose tail call goes through apply must run in bounded stack)" % (prog, out[-1][:40]))
    return _ATP[id(nat)]


# ================================================================================================ eval_expression_or_definition
def spec_definition(chk):
    """a definition evaluates its initialiser once and THEN binds the name; a failing initialiser binds nothing"""
    from ..mir import ENUMS
    from ..core import MapObj
    ex = chk.executor(True)
    nat = chk.ws.runner("dev")
    unit = "Interpreter::eval_expression_or_definition (eval_expression stubbed)"
    chk.region_ns = {}
    replay = lambda vals: eval_probe(nat)
    target = MapObj("target_defs")
    target.meta["arbitrary"] = True
    target.meta["val_ty"] = "values::Value<R>"
    envrc = Ref(Cell(Adt("LexicalScope", None, [Adt("Option", "None", []), target]), "target_frame"))

    @skel.stub(ex, r"::eval_expression$", "eval_expression -> any Ok(value) or any Err; logged with the number of bindings the target frame has at that moment")
    def eval_expr(ex, callee, args, rt):
        ex.log("eval", expr=skel.name_of(ex, args[0]), env=skel.frame_of(ex, args[1])[0], nbound=len(target.entries))
        v = Lazy("values::Value<R>", "init_value")
        for b in ex.branches([True, True]):
            if b == 0:
                ex.log("eval_ok", value=v)
                yield skel.Ok(v)
            else:
                e = skel.err_value("from the initialiser")
                ex.log("eval_err", error=e)
                yield skel.Err(e)

    st = Lazy("parser::parser::Statement", "stmt")
    it = Lazy("interpreter::Interpreter<R>", "it")
    f = ex.fn_by_suffix("::eval_expression_or_definition")
    ex.panic_hook = lambda info: chk.oblige(ex, unit, "no-panic", z3.BoolVal(False), {}, replay)
    STM = ENUMS["Statement"]
    for rv in ex.run(f, [Ref(Cell(it)), Ref(Cell(st)), envrc]):
        chk.path(unit)
        tag = ex.lazy_tag(st)
        for kind in skel.each_value(ex, tag, range(len(STM))):
            kind = STM[kind]
            evs = [e for e in ex.events if e["kind"] == "eval"]
            errs = [e for e in ex.events if e["kind"] == "eval_err"]
            oks = [e for e in ex.events if e["kind"] == "eval_ok"]
            writes = [(k, p, c) for (k, p, c) in target.entries if not (hasattr(p, "decl") and str(p).startswith("has_"))]
            written = [(k, c.v) for (k, p, c) in target.entries if z3.is_true(z3.simplify(p))]
            is_err = isinstance(rv, Adt) and rv.variant == "Err"
            post = [z3.BoolVal(all(e["env"] is envrc.cell for e in evs))]
            if kind == "Definition":
                post.append(z3.BoolVal(len(evs) == 1 and evs[0]["nbound"] == 0))          # nothing is bound before the initialiser has been evaluated
                if errs:
                    post.append(z3.BoolVal(is_err and rv.fields[0] is errs[-1]["error"] and not written))
                else:
                    post.append(z3.BoolVal(len(written) == 1 and oks and written[0][1] is oks[-1]["value"] and not is_err))
            elif kind == "Expression":
                post.append(z3.BoolVal(len(evs) == 1 and not written))
            elif kind == "SyntaxDefinition":
                post.append(z3.BoolVal(not evs and len(written) == 1 and not is_err))
            else:
                post.append(z3.BoolVal(is_err and not evs and not written))
            chk.oblige(ex, unit, "%s: the initialiser/expression is evaluated once in the target frame; a name is bound only after its initialiser succeeded; a failure binds nothing" % kind,
                       z3.And(*post), {}, replay)
