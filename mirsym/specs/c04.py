"""C04 - syntax-rules: rule selection, matching and template filling (fragment).   (DESIGN.md section 4, C04)"""
import z3

from ..core import Adt, Lazy, Ref, Cell, SeqObj, MapObj, Opaque, StrVal, Tup, Unsupported
from ..harness import hexs
from ..models import Ok, Err, Some, NONE
from ..mir import ENUMS
from . import skel
from . import numlib as nl

LOC = Opaque("location", "loc")


# ------------------------------------------------------------------------------------------------ pattern / template builders
def P(kind, *a):
    if kind == "_":
        body = Adt("SyntaxPatternBody", "Underscore", [])
    elif kind == "...":
        body = Adt("SyntaxPatternBody", "Ellipsis", [])
    elif kind == "id":
        body = Adt("SyntaxPatternBody", "Identifier", [StrVal(a[0])])
    elif kind == "int":
        body = Adt("SyntaxPatternBody", "Primitive", [Adt("Primitive", "Integer", [z3.IntVal(a[0])])])
    elif kind == "vec":
        body = Adt("SyntaxPatternBody", "Vector", [SeqObj("pv", "SyntaxPattern", [Cell(x) for x in a[0]], len(a[0]), len(a[0]))])
    else:
        raise ValueError(kind)
    return Adt("Located", None, [body, LOC])


def pattern_text(p):
    b = p.fields[0]
    if b.variant == "Underscore":
        return "_"
    if b.variant == "Ellipsis":
        return "..."
    if b.variant == "Identifier":
        return b.fields[0].concrete()
    if b.variant == "Primitive":
        return str(nl.cint(b.fields[0].fields[0]))
    if b.variant == "Vector":
        s = b.fields[0]
        return "#(" + " ".join(pattern_text(s.items[i].v) for i in range(s.ln)) + ")"
    return "?"


def datum_body(ex, d):
    return ex.project(d, ("f", 0, "parser::datum::DatumBody"))


def is_symbol(ex, d, name):
    b = datum_body(ex, d)
    return z3.And(ex.lazy_tag(b) == ENUMS["DatumBody"].index("Symbol"), ex.project(("DC", b, "Symbol"), ("f", 0, "std::string::String")).t == z3.StringVal(name))


def is_int(ex, d, n):
    b = datum_body(ex, d)
    pr = ex.project(("DC", b, "Primitive"), ("f", 0, "parser::datum::Primitive"))
    return z3.And(ex.lazy_tag(b) == ENUMS["DatumBody"].index("Primitive"), ex.lazy_tag(pr) == ENUMS["Primitive"].index("Integer"),
                  ex.project(("DC", pr, "Integer"), ("f", 0, "i32")) == n)


def vec_of(ex, d):
    b = datum_body(ex, d)
    return ex.lazy_tag(b) == ENUMS["DatumBody"].index("Vector"), ex.deref(ex.project(("DC", b, "Vector"), ("f", 0, "std::vec::Vec<parser::datum::Datum>")))


def atom_oracle(ex, p, d, literals, binds):
    """z3 condition under which pattern p (no ellipsis inside) matches the symbolic datum d; binds: var -> datum object"""
    b = p.fields[0]
    if b.variant in ("Underscore",):
        return z3.BoolVal(True)
    if b.variant == "Identifier":
        nm = b.fields[0].concrete()
        if nm in literals:
            return is_symbol(ex, d, nm)
        binds[nm] = d
        return z3.BoolVal(True)
    if b.variant == "Primitive":
        return is_int(ex, d, nl.cint(b.fields[0].fields[0]))
    if b.variant == "Vector":
        isv, seq = vec_of(ex, d)
        subs = [b.fields[0].items[i].v for i in range(b.fields[0].ln)]
        if subs and subs[-1].fields[0].variant == "Ellipsis":
            # #(p1 .. pk r ...): the first k data match p1..pk, one or more further data all match r
            fixed, rep = subs[:-2], subs[-2]
            n = skel.seq_len_term(seq)
            conds = [isv, n >= len(fixed) + 1]
            for i, sp in enumerate(fixed):
                conds.append(atom_oracle(ex, sp, ex.seq_item(seq, i).v, literals, binds) if i < seq.max else z3.BoolVal(False))
            for j in range(len(fixed), seq.max):
                conds.append(z3.Implies(n > j, atom_oracle(ex, rep, ex.seq_item(seq, j).v, literals, {})))
            return z3.And(*conds)
        conds = [isv, skel.seq_len_term(seq) == len(subs)]
        for i, sp in enumerate(subs):
            if i < seq.max:
                conds.append(atom_oracle(ex, sp, ex.seq_item(seq, i).v, literals, binds))
            else:
                conds.append(z3.BoolVal(False))
        return z3.And(*conds)
    raise Unsupported("oracle for pattern " + b.variant)


def literal_set(ex, names):
    m = MapObj("literals", is_set=True)
    for n in names:
        m.entries.append((StrVal(n), z3.BoolVal(True), Cell(None)))
    return m


# ------------------------------------------------------------------------------------------------ native probes
MACRO_PROBES = [
    # rule order: the first matching rule wins; later rules are not consulted; no match is an error
    ("(define-syntax m (syntax-rules () ((m a) 'one) ((m a b) 'two) ((m a b c) 'three)))\n(vector (m 1) (m 1 2) (m 1 2 3))", ["OK -", "OK VM 3 Y 6f6e65 Y 74776f Y 7468726565"]),
    ("(define-syntax m (syntax-rules () ((m a) 'one)))\n(m 1 2)", ["OK -", "ERR Syntax"]),
    ("(define-syntax m (syntax-rules () ((m a ...) '(many a ...)) ((m a b) '(two a b))))\n(m 1 2)", ["OK -", "OK L 3 Y 6d616e79 I 1 I 2"]),
    ("(define-syntax m (syntax-rules () ((m a b) '(two a b)) ((m a ...) '(many a ...))))\n(vector (m 1 2) (m 1))", ["OK -", "OK VM 2 L 3 Y 74776f I 1 I 2 L 2 Y 6d616e79 I 1"]),
    # a pattern variable matches ANY form, also a symbol spelled like one of the macro's literals
    ("(define-syntax sel (syntax-rules (to) ((sel a b) '(pair a b)) ((sel a b c) 'wild)))\n(sel 1 to)", ["OK -", "OK L 3 Y 70616972 I 1 Y 746f"]),
    # an ellipsis inside a vector pattern: runs of one, two and three items
    ("(define-syntax vh (syntax-rules () ((vh #(h r ...)) '(vec h (r ...))) ((vh x) '(not-a-vector x))))\n(vector (vh #(1 2)) (vh #(1 2 3)) (vh #(1 2 3 4)))",
     ["OK -", "OK VM 3 L 3 Y 766563 I 1 L 1 I 2 L 3 Y 766563 I 1 L 2 I 2 I 3 L 3 Y 766563 I 1 L 3 I 2 I 3 I 4"]),
    # operands that are themselves macro uses reach the rules as written (expansion is outside-in)
    ("(define-syntax kind (syntax-rules () ((kind (a b)) '(pair a b)) ((kind x) '(other x))))\n(kind (or 1))", ["OK -", "OK L 3 Y 70616972 Y 6f72 I 1"]),
    ("(define-syntax m (syntax-rules () ((m (m a) b) '(nested a b)) ((m a b) '(two a b)) ((m a) '(one a))))\n(m (m 1) 2)", ["OK -", "OK L 3 Y 6e6573746564 I 1 I 2"]),
    # bindings of a rule that failed must not leak into the rule that matches
    ("(define-syntax m (syntax-rules () ((m x) 'first) ((m a b) '(x a b))))\n(m 1 2)", ["OK -", "OK L 3 Y 78 I 1 I 2"]),
    # literal identifiers match only themselves; literal data only equal data
    ("(define-syntax m (syntax-rules (else) ((m else) 'lit) ((m x) 'var)))\n(vector (m else) (m other))", ["OK -", "OK VM 2 Y 6c6974 Y 766172"]),
    ("(define-syntax r (syntax-rules (from to) ((r from x) '(f x)) ((r to x) '(t x)) ((r y x) '(o x))))\n(vector (r from 1) (r to 2) (r up 3))", ["OK -", "OK VM 3 L 2 Y 66 I 1 L 2 Y 74 I 2 L 2 Y 6f I 3"]),
    ("(define-syntax m (syntax-rules () ((m 1) 'one) ((m 2) 'two) ((m x) 'other)))\n(vector (m 1) (m 2) (m 3))", ["OK -", "OK VM 3 Y 6f6e65 Y 74776f Y 6f74686572"]),
    # vectors match vectors, lists match lists
    ("(define-syntax k (syntax-rules () ((k #(a ...)) '(vector a ...)) ((k (a ...)) '(list a ...))))\n(k (1 2 3))\n(k #(1 2 3))", ["OK -", "OK L 4 Y 6c697374 I 1 I 2 I 3", "OK L 4 Y 766563746f72 I 1 I 2 I 3"]),
    # ellipsis: one, two, three and five items, in order; nested sub-patterns under the ellipsis
    ("(define-syntax c (syntax-rules () ((c x ...) '(x ...))))\n(vector (c 1) (c 1 2) (c 1 2 3) (c 1 2 3 4 5))", ["OK -", "OK VM 4 L 1 I 1 L 2 I 1 I 2 L 3 I 1 I 2 I 3 L 5 I 1 I 2 I 3 I 4 I 5"]),
    ("(define-syntax p (syntax-rules () ((p (a b) ...) '((b a) ...))))\n(p (1 2) (3 4) (5 6))", ["OK -", "OK L 3 L 2 I 2 I 1 L 2 I 4 I 3 L 2 I 6 I 5"]),
    ("(define-syntax v (syntax-rules () ((v #(a b) ...) '#(a ... b ...))))\n(v #(1 2) #(3 4) #(5 6))", ["OK -", "OK VI 6 I 1 I 3 I 5 I 2 I 4 I 6"]),
    # a datum that does not match the sub-pattern under the ellipsis rejects the rule (no silent dropping)
    ("(define-syntax p (syntax-rules () ((p (a b) ...) '((b a) ...))))\n(p (1 2) 3)", ["OK -", "ERR Syntax"]),
    ("(define-syntax v (syntax-rules () ((v #(a b) ...) 'two) ((v x ...) 'other)))\n(v #(1 2) #(3))", ["OK -", "OK Y 6f74686572"]),
    # a variable with a single match inside an ellipsis sub-template is repeated with every item
    ("(define-syntax t (syntax-rules () ((t s x ...) '#(#(s x) ...))))\n(t 0 1 2 3)", ["OK -", "OK VI 3 VI 2 I 0 I 1 VI 2 I 0 I 2 VI 2 I 0 I 3"]),
    ("(define-syntax t (syntax-rules () ((t s x ...) '((x s) ...))))\n(t 0 1 2 3)", ["OK -", "OK L 3 L 2 I 1 I 0 L 2 I 2 I 0 L 2 I 3 I 0"]),
    # a pattern variable used twice, `_`
    ("(define-syntax d (syntax-rules () ((d _ x) '(x x))))\n(d 9 7)", ["OK -", "OK L 2 I 7 I 7"]),
]
_MP = {}


def macro_probe(nat):
    if id(nat) in _MP:
        return _MP[id(nat)]
    res = (False, "native syntax-rules probes (rule order, no leak between rules, literals, list vs vector, ellipsis runs of 1..5 in order, nested sub-patterns, repeated variables) all expand correctly")
    for prog, want in MACRO_PROBES:
        out = [x.strip() for x in nat.cmd("eval %s" % hexs(prog)).split(" ;; ")]
        got = [(" ".join(o.split()[:2]) if o.startswith("ERR") else o) for o in out[-len(want):]]
        if got != want:
            res = (True, "program %r gives %s (expected %s)" % (prog, got, want))
            break
    _MP[id(nat)] = res
    return res


# ------------------------------------------------------------------------------------------------ U1: rule selection
def spec_transform(chk, NR):
    ex = chk.executor(True)
    nat = chk.ws.runner("dev")
    unit = "UserDefinedTransformer::transform (match_datum / substitude stubbed)"
    chk.region_ns = {}
    replay = lambda vals: macro_probe(nat)

    @skel.stub(ex, r"SyntaxPatternBody>>::match_datum$", "match_datum -> Ok(true) | Ok(false) | Err; logged with the pattern and the state of the substitution table it is given")
    def match_datum(ex, callee, args, rt):
        table = ex.deref(args[4])
        n = len([e for e in ex.events if e["kind"] == "match"])
        ex.log("match", pattern=skel.name_of(ex, args[0]), datum=ex.deref(args[1]), table=table, table_size=len([1 for (k, p, c) in table.entries if z3.is_true(z3.simplify(p))]) if isinstance(table, MapObj) else -1)
        # a match may leave bindings behind, also when it finally fails
        from ..models import map_insert
        for _ in map_insert(ex, table, StrVal("var%d" % n), Opaque("binding", "b%d" % n)):
            for b in ex.branches([True, True, True]):
                if b == 0:
                    ex.log("matched", rule=n)
                    yield Ok(z3.BoolVal(True))
                elif b == 1:
                    yield Ok(z3.BoolVal(False))
                else:
                    e = skel.err_value("from match_datum")
                    ex.log("match_err", error=e)
                    yield Err(e)

    @skel.stub(ex, r"SyntaxTemplateBody>>::substitude$", "substitude -> Ok(vector of 0..2 data) | Err; logged with template and table")
    def substitude(ex, callee, args, rt):
        table = ex.deref(args[1])
        ex.log("subst", template=skel.name_of(ex, args[0]), table=table)
        for k in range(3):
            items = [Lazy("parser::datum::Datum", "out%d_%d" % (k, i)) for i in range(k)]
            yield Ok(SeqObj("substituted%d" % k, "Datum", [Cell(x) for x in items] + [Cell(None)], k, k + 1))
        e = skel.err_value("from substitude")
        ex.log("subst_err", error=e)
        yield Err(e)

    nr = z3.Int("nrules")
    ex.ctx.add(nr >= 0, nr <= NR)
    rules = ex.fresh_seq("rule", "(parser::macros::SyntaxPattern, parser::macros::SyntaxTemplate)", maxlen=NR, ln=nr)
    udt = Adt("UserDefinedTransformer", None, [NONE, literal_set(ex, []), rules])
    datum = Lazy("parser::datum::Datum", "use")
    f = ex.resolve("UserDefinedTransformer::transform")
    ex.panic_hook = lambda info: chk.oblige(ex, unit, "no-panic", z3.BoolVal(False), {}, replay)
    for rv in ex.run(f, [Ref(Cell(udt)), StrVal("m"), datum]):
        chk.path(unit)
        events = list(ex.events)
        ms = [e for e in events if e["kind"] == "match"]
        matched = [e for e in events if e["kind"] == "matched"]
        merr = [e for e in events if e["kind"] == "match_err"]
        subs = [e for e in events if e["kind"] == "subst"]
        serr = [e for e in events if e["kind"] == "subst_err"]
        post = []
        # rules are tried in textual order, each at most once, each with a FRESH empty table, all against the use
        post.append(z3.BoolVal(all(m["pattern"].startswith("rule[%d]" % i) for i, m in enumerate(ms))))
        post.append(z3.BoolVal(all(m["table_size"] == 0 for m in ms)))
        post.append(z3.BoolVal(all(m["datum"] is datum for m in ms)))
        is_err = isinstance(rv, Adt) and rv.variant == "Err"
        kind = nl.err_kind(ex, rv.fields[0]) if is_err and not isinstance(rv.fields[0], Opaque) else None
        if merr:
            post.append(z3.BoolVal(is_err and rv.fields[0] is merr[0]["error"] and not subs))
        elif matched:
            j = matched[0]["rule"]
            post.append(z3.BoolVal(len(matched) == 1 and j == len(ms) - 1 and len(subs) == 1 and subs[0]["template"].startswith("rule[%d]" % j) and subs[0]["table"] is ms[j]["table"]))
            if serr:
                post.append(z3.BoolVal(is_err and rv.fields[0] is serr[0]["error"]))
            elif is_err:
                post.append(z3.BoolVal(kind == "TransformOutMultipleDatum"))
            else:
                post.append(z3.BoolVal(isinstance(rv, Adt) and rv.variant == "Ok" and isinstance(rv.fields[0], Lazy) and rv.fields[0].name.startswith("out1_0")))
        else:
            post.append(z3.IntVal(len(ms)) == nr)
            post.append(z3.BoolVal(is_err and kind == "MacroMissMatch" and not subs))
        chk.oblige(ex, unit, "rules are tried in textual order, each with a fresh substitution table; the first match alone is substituted and is the result; no match is a syntax error",
                   z3.And(*post), {}, replay)


def spec_rule_collection(chk, NR):
    """Parser::transform_transformer: the rules of a (syntax-rules (literal ...) rule ...) form reach the transformer in TEXTUAL
    order, one per rule form, and the literal list is the form's second element (list traversal and the conversion of a single
    rule / identifier are stubbed and logged)"""
    from ..core import IterObj
    ex = chk.executor(True)
    nat = chk.ws.runner("dev")
    unit = "Parser::transform_transformer (list traversal, transform_syntax_rule and transform_identifier stubbed)"
    chk.region_ns = {}
    replay = lambda vals: macro_probe(nat)
    nr = z3.Int("nrules")
    ex.ctx.add(nr >= 0, nr <= NR)
    form = Lazy("parser::datum::Datum", "form")
    kw = Lazy("parser::datum::Datum", "syntax_rules_symbol")
    lits = Adt("Located", None, [Adt("DatumBody", "Pair", [Ref(Cell(Opaque("DatumList", "literal_list")))]), LOC])
    rule_forms = [Lazy("parser::datum::Datum", "ruleform%d" % i) for i in range(NR)]
    items = SeqObj("form_items", "parser::datum::Datum", [Cell(kw), Cell(lits)] + [Cell(r) for r in rule_forms], 2 + nr, 2 + NR)
    lit_items = SeqObj("literal_items", "parser::datum::Datum", [], 0, 0)

    @skel.stub(ex, r"::expect_list$", "Datum::expect_list -> the datum's list (opaque)")
    def expect_list(ex, callee, args, rt):
        d = ex.deref(args[0])
        ex.log("expect_list", datum=d)
        yield Ok(Opaque("DatumList", "list_of_form" if d is form else "other_list"))

    @skel.stub(ex, r"^<(parser::pair::)?GenericPair<.*> as IntoIterator>::into_iter$|GenericPair(::)?(<.*>)?::into_iter$", "list traversal -> the form's items / the literal list's items in order")
    def into_iter(ex, callee, args, rt):
        lst = ex.deref(args[0])
        tag = getattr(lst, "tag", "")
        if tag == "list_of_form":
            yield IterObj("seq", seq=items, pos=0, by_ref=False, mut=False)
        elif tag == "literal_list":
            yield IterObj("seq", seq=lit_items, pos=0, by_ref=False, mut=False)
        else:
            raise Unsupported("traversal of an unexpected list %r" % (lst,))

    @skel.stub(ex, r"::transform_syntax_rule$", "transform_syntax_rule -> Ok((pattern_i, template_i)) or Err; logged with the rule form")
    def tsr(ex, callee, args, rt):
        d = ex.deref(args[1])
        n = len([e for e in ex.events if e["kind"] == "rule"])
        pat = Lazy("parser::macros::SyntaxPattern", "pattern_of_%s" % getattr(d, "name", "?"))
        ex.log("rule", form=d, pattern=pat)
        from ..core import Tup
        yield Ok(Tup([pat, Lazy("parser::macros::SyntaxTemplate", "template_of_%s" % getattr(d, "name", "?"))]))
        e = skel.err_value("from transform_syntax_rule")
        ex.log("rule_err", error=e)
        yield Err(e)

    @skel.stub(ex, r"::transform_identifier$", "transform_identifier -> any name")
    def tid(ex, callee, args, rt):
        yield Ok(StrVal("lit"))

    install_pair_stub(ex)       # should the code look into a converted pattern: an arbitrary sequence of sub-patterns
    f = ex.fn_by_suffix("::transform_transformer")
    ex.panic_hook = lambda info: chk.oblige(ex, unit, "no-panic", z3.BoolVal(False), {"nrules": nr}, replay)
    for rv in ex.run(f, [Ref(Cell(StrVal("m"))), form]):
        chk.path(unit)
        evs = [e for e in ex.events if e["kind"] == "rule"]
        errs = [e for e in ex.events if e["kind"] == "rule_err"]
        for k in skel.each_value(ex, nr, range(NR + 1)):
            post = []
            # every rule form is converted once, in textual order (up to the first failure)
            post.append(z3.BoolVal(all(e["form"] is rule_forms[i] for i, e in enumerate(evs)) and len(evs) <= k))
            is_err = isinstance(rv, Adt) and rv.variant == "Err"
            if errs:
                post.append(z3.BoolVal(is_err and rv.fields[0] is errs[0]["error"]))
            else:
                ok = isinstance(rv, Adt) and rv.variant == "Ok"
                post.append(z3.BoolVal(ok and len(evs) == k))
                if ok:
                    udt = rv.fields[0]
                    rules = ex.deref(udt.fields[2]) if isinstance(udt, Adt) else None
                    good = isinstance(rules, SeqObj) and conc_len(ex, rules) == k
                    if good:
                        for i in range(k):
                            t = ex.deref(rules.items[i].v)
                            good = good and hasattr(t, "items") and ex.deref(t.items[0]) is evs[i]["pattern"]
                    post.append(z3.BoolVal(bool(good)))
            chk.oblige(ex, unit, "the transformer's rules are the converted rule forms in textual order", z3.And(*post), {"nrules": nr}, replay)


def install_pair_stub(ex):
    @skel.stub(ex, r"GenericPair(::)?(<.*>)?::iter$|::last_cdr$", "GenericPair traversal: not encoded - a list datum yields an arbitrary sequence of items; reached only when a LIST is traversed, which the Vec-level units never ask for")
    def pair_ops(ex, callee, args, rt):
        ex.log("pair_traversal")
        from ..core import IterObj
        n = len([e for e in ex.events if e["kind"] == "pair_traversal"])
        if callee.endswith("last_cdr"):
            yield NONE
        else:
            yield IterObj("seq", seq=ex.fresh_seq("listitems%d" % n, "parser::datum::Datum", maxlen=2), pos=0, by_ref=True, mut=False)


# ------------------------------------------------------------------------------------------------ U2/U3: matching
CATALOGUE = [
    # (pattern list, literals)
    ([P("id", "x")], []), ([P("id", "x"), P("id", "y")], []), ([P("_"), P("id", "x")], []),
    ([P("id", "else"), P("id", "x")], ["else"]), ([P("int", 1), P("id", "x")], []),
    ([P("id", "x"), P("...")], []), ([P("id", "x"), P("id", "y"), P("...")], []), ([P("id", "k"), P("id", "x"), P("...")], ["k"]),
    ([P("vec", [P("id", "a"), P("id", "b")]), P("...")], []), ([P("vec", [P("id", "a")]), P("id", "y")], []),
]


def spec_stream(chk, ND):
    nat = chk.ws.runner("dev")
    replay = lambda vals: macro_probe(nat)
    for pats, lits in CATALOGUE:
        ex = chk.executor(True)
        ex.seq_max = 2
        text = "(" + " ".join(pattern_text(p) for p in pats) + ")" + (" literals %s" % lits if lits else "")
        unit = "SyntaxPattern::match_datum_stream, patterns %s" % text
        chk.region_ns = {}
        n = z3.Int("ndata")
        ex.ctx.add(n >= 0, n <= ND)
        data = ex.fresh_seq("d", "parser::datum::Datum", maxlen=ND, ln=n)
        pv = SeqObj("patterns", "SyntaxPattern", [Cell(p) for p in pats], len(pats), len(pats))
        table = MapObj("table")
        install_pair_stub(ex)
        f = ex.resolve("SyntaxPattern::match_datum_stream")
        has_ell = pats[-1].fields[0].variant == "Ellipsis"
        fixed = pats[:-2] if has_ell else pats
        rep = pats[-2] if has_ell else None
        ex.panic_hook = lambda info, ex=ex, unit=unit: chk.oblige(ex, unit, "no-panic", z3.BoolVal(False), {"ndata": n}, replay)
        for rv in ex.run(f, [z3.IntVal(0), z3.IntVal(0), z3.IntVal(0), Ref(Cell(pv)), Ref(Cell(data)), Ref(Cell(literal_set(ex, lits))), Ref(Cell(table)), NONE]):
            chk.path(unit)
            if not (isinstance(rv, Adt) and rv.variant == "Ok"):
                chk.oblige(ex, unit, "matching a supported pattern never fails with an error", z3.BoolVal(False), {"ndata": n}, replay)
                continue
            res = rv.fields[0]
            for nn in skel.each_value(ex, n, range(ND + 1)):          # a path that did not look at the number of data must be right for each
                items = [ex.seq_item(data, i).v for i in range(nn)]
                binds = {}
                conds = []
                runs = {}
                if has_ell:
                    conds.append(z3.BoolVal(nn >= len(fixed) + 1))           # one or more items per ellipsis
                else:
                    conds.append(z3.BoolVal(nn == len(fixed)))
                for i, p in enumerate(fixed):
                    if i < nn:
                        conds.append(atom_oracle(ex, p, items[i], lits, binds))
                if has_ell:
                    for j in range(len(fixed), nn):
                        b = {}
                        conds.append(atom_oracle(ex, rep, items[j], lits, b))
                        for var, obj in b.items():
                            runs.setdefault(var, []).append(obj)
                expected = z3.And(*conds)
                post = [res == expected]
                # the substitution table after a successful match: variable -> (first match, further matches in order)
                tb = {k.concrete(): (p, c.v) for (k, p, c) in table.entries}
                good = []
                for var, obj in binds.items():
                    ent = tb.get(var)
                    okv = ent is not None and isinstance(ent[1], Tup) and ent[1].items[0] is obj and isinstance(ex.deref(ent[1].items[1]), SeqObj) and conc_len(ex, ex.deref(ent[1].items[1])) == 0
                    good.append(z3.BoolVal(bool(okv)))
                for var, objs in runs.items():
                    ent = tb.get(var)
                    okv = False
                    if ent is not None and isinstance(ent[1], Tup):
                        rest = ex.deref(ent[1].items[1])
                        okv = ent[1].items[0] is objs[0] and isinstance(rest, SeqObj) and conc_len(ex, rest) == len(objs) - 1 and all(rest.items[i].v is objs[i + 1] for i in range(len(objs) - 1))
                    good.append(z3.BoolVal(bool(okv)))
                post.append(z3.Implies(expected, z3.And(*good) if good else z3.BoolVal(True)))
                chk.oblige(ex, unit, "matches exactly when every pattern matches its datum (a sub-pattern followed by ... matches a run of one or more); each variable is bound to what it matched, the run's items in order",
                           z3.And(*post), {"ndata": n}, replay)


def conc_len(ex, seq):
    if isinstance(seq.ln, int):
        return seq.ln
    c = z3.simplify(seq.ln)
    return c.as_long() if z3.is_int_value(c) else -1


def spec_match_kinds(chk):
    """match_datum on every pattern kind against an arbitrary datum: kinds must agree (a vector pattern never matches a list, ...)"""
    nat = chk.ws.runner("dev")
    replay = lambda vals: macro_probe(nat)
    cases = [("_", P("_"), []), ("x", P("id", "x"), []), ("else[literal]", P("id", "else"), ["else"]), ("else[literal among several]", P("id", "else"), ["=>", "else", "to"]), ("1", P("int", 1), []),
             ("#(a b)", P("vec", [P("id", "a"), P("id", "b")]), []), ("#()", P("vec", []), []),
             ("#(h r ...)", P("vec", [P("id", "h"), P("id", "r"), P("...")]), []), ("#(r ...)", P("vec", [P("id", "r"), P("...")]), [])]
    for label, pat, lits in cases:
        ex = chk.executor(True)
        ex.seq_max = 2
        unit = "SyntaxPattern::match_datum, pattern %s" % label
        chk.region_ns = {}
        d = Lazy("parser::datum::Datum", "d")
        # lists are outside this unit (GenericPair iteration): the datum is a primitive, a symbol or a vector ... or a pair, which must not match
        table = MapObj("table")
        f = ex.resolve("SyntaxPattern::match_datum")

        install_pair_stub(ex)

        ex.panic_hook = lambda info, ex=ex, unit=unit: chk.oblige(ex, unit, "no-panic", z3.BoolVal(False), {}, replay)
        for rv in ex.run(f, [Ref(Cell(pat)), Ref(Cell(d)), z3.IntVal(0), Ref(Cell(literal_set(ex, lits))), Ref(Cell(table))]):
            chk.path(unit)
            if not (isinstance(rv, Adt) and rv.variant == "Ok"):
                chk.oblige(ex, unit, "no error", z3.BoolVal(False), {}, replay)
                continue
            binds = {}
            expected = atom_oracle(ex, pat, d, lits, binds)
            chk.oblige(ex, unit, "pattern variables and _ match any form, literal identifiers only themselves, literal data only equal data, vector patterns only vectors of the same shape",
                       z3.And(rv.fields[0] == expected, z3.BoolVal(not [e for e in ex.events if e["kind"] == "pair_traversal"])), {}, replay)


# ------------------------------------------------------------------------------------------------ U4: template filling (vector templates)
def T(kind, *a):
    if kind == "id":
        body = Adt("SyntaxTemplateBody", "Identifier", [StrVal(a[0])])
    elif kind == "int":
        body = Adt("SyntaxTemplateBody", "Primitive", [Adt("Primitive", "Integer", [z3.IntVal(a[0])])])
    elif kind == "vec":
        elems = [Adt("SyntaxTemplateElement", None, [t, z3.BoolVal(ell)]) for (t, ell) in a[0]]
        body = Adt("SyntaxTemplateBody", "Vector", [SeqObj("tv", "SyntaxTemplateElement", [Cell(x) for x in elems], len(elems), len(elems))])
    return Adt("Located", None, [body, LOC])


def spec_template(chk, NR):
    nat = chk.ws.runner("dev")
    replay = lambda vals: macro_probe(nat)
    # templates over the variables x (an ellipsis variable with 1..NR+1 matches) and s (a single match)
    templates = [
        ("#(x ...)", T("vec", [(T("id", "x"), True)]), lambda s, xs: xs),
        ("#(s x ...)", T("vec", [(T("id", "s"), False), (T("id", "x"), True)]), lambda s, xs: [s] + xs),
        ("#(x ... s)", T("vec", [(T("id", "x"), True), (T("id", "s"), False)]), lambda s, xs: xs + [s]),
        ("#(s s)", T("vec", [(T("id", "s"), False), (T("id", "s"), False)]), lambda s, xs: [s, s]),
        ("#(#(s x) ...)", T("vec", [(T("vec", [(T("id", "s"), False), (T("id", "x"), False)]), True)]), lambda s, xs: [("vec", [s, x]) for x in xs]),
        ("#(free 7 s)", T("vec", [(T("id", "free"), False), (T("int", 7), False), (T("id", "s"), False)]), lambda s, xs: [("sym", "free"), ("int", 7), s]),
    ]
    for label, tmpl, expect in templates:
        ex = chk.executor(True)
        ex.seq_max = NR
        unit = "SyntaxTemplate::substitude, template %s" % label
        chk.region_ns = {}
        nrest = z3.Int("nrest")
        ex.ctx.add(nrest >= 0, nrest <= NR)
        x0 = Lazy("parser::datum::Datum", "x0")
        rest = ex.fresh_seq("xr", "parser::datum::Datum", maxlen=NR, ln=nrest)
        sv = Lazy("parser::datum::Datum", "s")
        table = MapObj("table")
        table.entries.append((StrVal("x"), z3.BoolVal(True), Cell(Tup([x0, rest]))))
        table.entries.append((StrVal("s"), z3.BoolVal(True), Cell(Tup([sv, SeqObj("srest", "Datum", [], 0, 0)]))))
        f = ex.resolve("SyntaxTemplate::substitude")
        ex.panic_hook = lambda info, ex=ex, unit=unit: chk.oblige(ex, unit, "no-panic", z3.BoolVal(False), {"nrest": nrest}, replay)
        for rv in ex.run(f, [Ref(Cell(tmpl)), Ref(Cell(table))]):
            chk.path(unit)
            ok = isinstance(rv, Adt) and rv.variant == "Ok"
            # the length of the run is an input: a path that never looked at it must be right for every length
            for k in ex.branches([nrest == j for j in range(NR + 1)]):
                post = [z3.BoolVal(ok)]
                if ok:
                    out = ex.deref(rv.fields[0])
                    xs = [x0] + [ex.seq_item(rest, i).v for i in range(k)]
                    want = expect(sv, xs)
                    good = isinstance(out, SeqObj) and conc_len(ex, out) == 1
                    if good:
                        good = same_datum(ex, out.items[0].v, ("vec", want))
                    post.append(z3.BoolVal(bool(good)))
                chk.oblige(ex, unit, "every pattern variable is replaced by what it matched; an ellipsis sub-template is repeated once per matched item, in order; other identifiers and literals are copied",
                           z3.And(*post), {"nrest": nrest}, replay)


def same_datum(ex, got, want):
    """structural comparison of a produced datum with the expected shape: Lazy objects by identity"""
    got = ex.deref(got)
    if isinstance(want, (Lazy,)):
        return got is want
    if isinstance(want, tuple):
        if not (isinstance(got, Adt) and got.ty == "Located"):
            return False
        body = got.fields[0]
        if want[0] == "vec":
            if not (isinstance(body, Adt) and body.variant == "Vector"):
                return False
            seq = ex.deref(body.fields[0])
            n = conc_len(ex, seq)
            return n == len(want[1]) and all(same_datum(ex, seq.items[i].v, want[1][i]) for i in range(n))
        if want[0] == "sym":
            return isinstance(body, Adt) and body.variant == "Symbol" and body.fields[0].concrete() == want[1]
        if want[0] == "int":
            return isinstance(body, Adt) and body.variant == "Primitive" and nl.cint(body.fields[0].fields[0]) == want[1]
    return False


def run(chk):
    thorough = chk.tier == "thorough"
    ND = 4 if thorough else 3
    chk.bounds = {"rule sets": "0..3 rules (matching and substitution stubbed)", "stream matching": "%d pattern lists (variables, _, literal identifier, literal datum, vector sub-patterns, final ellipsis) against 0..%d arbitrary data" % (len(CATALOGUE), ND),
                  "templates": "6 vector templates over a single variable and an ellipsis variable with 1..%d matches" % (ND + 1)}
    chk.assumptions += [
        "fragment: match_datum_stream and the vector arms are executed on Vec-based patterns/data; the list (GenericPair) arms of match_datum and of template substitution differ only in converting the list to a Vec / back (pair.rs iterators, not encoded) - list-specific faults are only covered by the native probes that confirm counterexamples",
        "patterns are within the expander's supported class (one ellipsis per list, final position, depth 1, one or more items per ellipsis)",
        "Clone of a datum is identity in the model (data are immutable); HashMap/HashSet/Vec modelled",
        "parsing of syntax-rules forms (transform_transformer/pattern/template) and the re-expansion loop in the parser are outside",
    ]
    chk.run_probes("syntax-rules", macro_probe, chk.ws.runner("dev"), len(MACRO_PROBES))
    chk.step("transform", spec_transform, chk, 3)
    chk.step("rule collection", spec_rule_collection, chk, 3)
    chk.step("match kinds", spec_match_kinds, chk)
    chk.step("stream", spec_stream, chk, ND)
    chk.step("templates", spec_template, chk, ND)
