"""Models of the std / third-party functions the encoded units call (everything that is not MIR of the crate).

Each model is a generator `(ex, callee, args, ret_ty) -> values`; alternatives are explored through ex.branches so that
each is solver-checked for feasibility.  The evidence of a run lists the labels of the models it actually used.
"""
import re

import z3

from .core import (Adt, Tup, Cell, Ref, Opaque, Lazy, SeqObj, IterObj, MapObj, StrVal, CharStr, Closure, FnPtr, Transparent, Unsupported, NoModel,
                   PanicExc, tset, tput, tappend, TRAIL, undo, wrap, zint, conc_int, conc_bool, is_z3)
from .mir import ENUMS, STRUCTS, INT_RANGES, base_ty, generic_args, split_top, strip_turbofish


def Some(v):
    return Adt("Option", "Some", [v])


NONE = Adt("Option", "None", [])


def Ok(v):
    return Adt("Result", "Ok", [v])


def Err(e):
    return Adt("Result", "Err", [e])


UNIT = Tup([])


def self_type(callee):
    """'<T as Trait>::m' -> T ;  'path::Type::<..>::m' -> path::Type"""
    m = re.match(r"^<(.+) as .+>::\w+", callee, re.S)
    if m:
        # the ' as ' that separates type and trait is the last top-level one
        inner = callee[1:callee.rindex(">::")]
        d = 0
        pos = None
        for i, c in enumerate(inner):
            if c == "<":
                d += 1
            elif c == ">" and inner[i - 1] != "-":
                d -= 1
            elif d == 0 and inner.startswith(" as ", i):
                pos = i
        return inner[:pos].strip() if pos is not None else inner
    c = strip_turbofish(callee)
    return c.rsplit("::", 1)[0] if "::" in c else ""


def enum_branch(ex, v, variants):
    """fork over the variants (names) of enum value v; yields variant name"""
    if isinstance(v, Adt):
        if v.variant in variants:
            yield v.variant
        return
    if isinstance(v, Lazy):
        names = ENUMS[base_ty(v.ty)]
        tag = ex.lazy_tag(v)
        for i in ex.branches([tag == names.index(n) for n in variants]):
            yield variants[i]
        return
    raise Unsupported("enum_branch on " + repr(v))


def variant_field(ex, v, variant, idx, ty="?"):
    return ex.project(("DC", v, variant), ("f", idx, ty))


# ------------------------------------------------------------------------------------------------ strings
def str_eq(ex, a, b):
    a = ex.deref(a)
    b = ex.deref(b)
    if isinstance(a, StrVal) and isinstance(b, StrVal):
        ca, cb = a.concrete(), b.concrete()
        if ca is not None and cb is not None:
            return z3.BoolVal(ca == cb)
        return a.t == b.t

    def as_chars(x):
        if isinstance(x, CharStr):
            return list(x.chars)
        if isinstance(x, StrVal) and x.concrete() is not None:
            return [z3.IntVal(ord(ch)) for ch in x.concrete()]
        return None
    xa, xb = as_chars(a), as_chars(b)
    if xa is not None and xb is not None:
        if len(xa) != len(xb):
            return z3.BoolVal(False)
        return z3.And(*[p == q for p, q in zip(xa, xb)]) if xa else z3.BoolVal(True)
    raise Unsupported("string equality on %r %r" % (a, b))


def fresh_str(ex, pfx="s"):
    return StrVal(z3.String(ex.fresh_name(pfx)))


# ------------------------------------------------------------------------------------------------ sequences / iterators
def new_seq(ex, items, elem_ty="?", maxlen=None, name=None):
    maxlen = max(len(items), maxlen or 0)
    cells = [Cell(x) for x in items] + [Cell(None) for _ in range(maxlen - len(items))]
    return SeqObj(name or ex.fresh_name("seq"), elem_ty, cells, len(items), maxlen)


def grow_seq(ex, s, limit=24):
    """Vec growth: one more slot (trail-managed); a hard limit guards against unbounded loops"""
    if s.max >= limit:
        raise Unsupported("sequence %r grows beyond %d elements" % (s, limit))
    tappend(s.items, Cell(None))
    tset(s, "max", s.max + 1)


def seq_len_cases(ex, seq):
    """fork over the concrete lengths of a sequence; yields python int"""
    if isinstance(seq.ln, int):
        yield seq.ln
        return
    c = conc_int(seq.ln)
    if c is not None:
        yield c
        return
    for i in ex.branches([seq.ln == k for k in range(seq.max + 1)]):
        yield i


def seq_index_cases(ex, seq, k):
    """fork: yields (i) for k == i < len, or None for out of range"""
    ln = zint(seq.ln)
    kc = conc_int(k)
    if kc is not None:
        if kc < 0 or kc >= seq.max:
            yield None
            return
        for i in ex.branches([ln > kc, ln <= kc]):
            yield kc if i == 0 else None
        return
    conds = [z3.And(k == i, ln > i) for i in range(seq.max)]
    conds.append(z3.Or(k < 0, k >= ln))
    for i in ex.branches(conds):
        yield i if i < seq.max else None


def make_iter(ex, v, by_ref):
    v = ex.deref(v)
    if isinstance(v, IterObj):
        return v
    if isinstance(v, SeqObj):
        return IterObj("seq", seq=v, pos=0, by_ref=by_ref, mut=False)
    if isinstance(v, MapObj):
        return IterObj("map", m=v, visited=(), by_ref=by_ref)
    if isinstance(v, Adt) and v.ty == "Range":
        return IterObj("range", lo=v.fields[0], hi=v.fields[1], pos=0)
    if isinstance(v, Adt) and v.ty == "Option":
        return IterObj("seq", seq=new_seq(ex, [v.fields[0]] if v.variant == "Some" else []), pos=0, by_ref=by_ref, mut=False)
    raise NoModel()


def utf8_len(c):
    """bytes of the UTF-8 encoding of a character term"""
    if isinstance(c, int):
        return 1 if c < 0x80 else 2 if c < 0x800 else 3 if c < 0x10000 else 4
    return z3.If(c < 0x80, 1, z3.If(c < 0x800, 2, z3.If(c < 0x10000, 3, 4)))


def iter_next(ex, it):
    """generator of Option values; advances the iterator (trail-managed)"""
    it = ex.deref(it)
    if not isinstance(it, IterObj):
        raise NoModel()
    k = it.kind
    if k == "seq":
        seq, pos = it.seq, it.pos
        end = getattr(it, "end", None)
        if end is not None:
            ln = end
        else:
            ln = seq.ln
        if pos >= seq.max:
            yield NONE
            return
        lnc = ln if isinstance(ln, int) else conc_int(ln)
        if lnc is not None:
            if pos < lnc:
                tset(it, "pos", pos + 1)
                c = ex.seq_item(seq, pos)
                yield Some(Ref(c) if it.by_ref else c.v)
            else:
                yield NONE
            return
        for i in ex.branches([ln > pos, ln <= pos]):
            if i == 0:
                tset(it, "pos", pos + 1)
                c = ex.seq_item(seq, pos)
                yield Some(Ref(c) if it.by_ref else c.v)
            else:
                yield NONE
        return
    if k == "range":
        cap = getattr(ex, "range_max", getattr(ex, "from_elem_max", ex.seq_max))
        cur = zint(it.lo) + it.pos
        more = cur < zint(it.hi)
        for b in ex.branches([more, z3.Not(more)]):
            if b == 0:
                if it.pos >= cap:
                    hook = getattr(ex, "from_elem_overflow", None)
                    if hook:
                        hook(ex, it.hi)
                        continue
                    raise Unsupported("range longer than the modelled capacity %d" % cap)
                tset(it, "pos", it.pos + 1)
                yield Some(z3.simplify(cur))
            else:
                yield NONE
        return
    if k == "map":       # HashMap / HashSet iteration
        m = it.m
        order = getattr(ex, "map_iter_order", "insertion")
        cands = [i for i in range(len(m.entries)) if i not in it.visited]
        if order == "insertion":
            # first unvisited present entry in insertion order
            def rec(idx_list):
                if not idx_list:
                    yield NONE
                    return
                i = idx_list[0]
                key, present, cell = m.entries[i]
                for b in ex.branches([present, z3.Not(present)]):
                    if b == 0:
                        tset(it, "visited", it.visited + (i,))
                        yield _map_item(m, key, cell, it.by_ref)
                    else:
                        tset(it, "visited", it.visited + (i,))
                        yield from rec(idx_list[1:])
            yield from rec(cands)
            return
        # 'any': every present unvisited entry may come next (hash order is a solver choice)
        conds = [m.entries[i][1] for i in cands]
        conds.append(z3.And(*[z3.Not(m.entries[i][1]) for i in cands]) if cands else z3.BoolVal(True))
        for b in ex.branches(conds):
            if b < len(cands):
                i = cands[b]
                tset(it, "visited", it.visited + (i,))
                key, present, cell = m.entries[i]
                yield _map_item(m, key, cell, it.by_ref)
            else:
                yield NONE
        return
    if k == "mapf":
        for o in iter_next(ex, it.inner):
            if o.variant == "None":
                yield NONE
            else:
                for r in ex.call_closure(it.f, [o.fields[0]]):
                    yield Some(r)
        return
    if k == "mapf_deref":
        for o in iter_next(ex, it.inner):
            yield NONE if o.variant == "None" else Some(ex.deref1(o.fields[0]) if isinstance(o.fields[0], Ref) else o.fields[0])
        return
    if k == "filter":
        for o in iter_next(ex, it.inner):
            if o.variant == "None":
                yield NONE
                continue
            x = o.fields[0]
            for keep in ex.call_closure(it.f, [Ref(Cell(x))]):
                for b in ex.branches([keep, z3.Not(keep)]):
                    if b == 0:
                        yield Some(x)
                    else:
                        yield from iter_next(ex, it)
        return
    if k == "skip":
        if it.n > 0:
            n = it.n
            tset(it, "n", 0)

            def skipn(j):
                if j == 0:
                    yield from iter_next(ex, it.inner)
                    return
                for o in iter_next(ex, it.inner):
                    if o.variant == "None":
                        yield NONE
                    else:
                        yield from skipn(j - 1)
            yield from skipn(n)
        else:
            yield from iter_next(ex, it.inner)
        return
    if k == "peekable":
        if it.peeked is not None:
            p = it.peeked
            tset(it, "peeked", None)
            yield p
        else:
            yield from iter_next(ex, it.inner)
        return
    if k == "enumerate":
        for o in iter_next(ex, it.inner):
            if o.variant == "None":
                yield NONE
            else:
                i = it.count
                tset(it, "count", i + 1)
                yield Some(Tup([z3.IntVal(i), o.fields[0]]))
        return
    if k == "chain":
        if not it.first_done:
            for o in iter_next(ex, it.a):
                if o.variant == "Some":
                    yield o
                else:
                    tset(it, "first_done", True)
                    yield from iter_next(ex, it.b)
        else:
            yield from iter_next(ex, it.b)
        return
    if k == "custom":
        yield from it.next(ex, it)
        return
    raise Unsupported("iterator kind " + k)


def _map_item(m, key, cell, by_ref):
    if m.is_set:
        return Some(Ref(Cell(key)) if by_ref else key)
    return Some(Tup([Ref(Cell(key)), Ref(cell)]) if by_ref else Tup([key, cell.v]))


def drain(ex, it, acc=()):
    """generator: exhaust iterator, yield tuple of all items"""
    for o in iter_next(ex, it):
        if o.variant == "None":
            yield acc
        else:
            yield from drain(ex, it, acc + (o.fields[0],))


# ------------------------------------------------------------------------------------------------ maps
def map_lookup(ex, m, key):
    """fork: yields entry index (hit) or None (miss)"""
    key = ex.deref(key)
    conds = []
    idxs = []
    for i, (k, present, cell) in enumerate(m.entries):
        eq = key_eq(ex, k, key)
        c = z3.And(present, eq)
        if conc_bool(c) is False:
            continue
        conds.append(c)
        idxs.append(i)
    miss = z3.And(*[z3.Not(c) for c in conds]) if conds else z3.BoolVal(True)
    for b in ex.branches(conds + [miss]):
        if b < len(idxs):
            yield idxs[b]
        elif m.meta.get("arbitrary"):
            # unknown input map: this key (different from every key seen so far) may or may not be present
            p = ex.fresh_bool("has_" + m.name)
            n = len(m.entries)
            tappend(m.entries, (key, p, Cell(ex.fresh_value(m.meta.get("val_ty", "()"), "%s.entry%d" % (m.name, n)))))
            for bb in ex.branches([p, z3.Not(p)]):
                yield n if bb == 0 else None
        else:
            yield None


def key_eq(ex, a, b):
    if isinstance(a, StrVal) or isinstance(b, StrVal):
        return str_eq(ex, a, b)
    hook = getattr(ex, "key_eq_hook", None)
    if hook:
        return hook(ex, a, b)
    if a is b:
        return z3.BoolVal(True)
    if is_z3(a) and is_z3(b):
        return a == b
    raise Unsupported("map key equality on %r %r" % (a, b))


def map_insert(ex, m, key, val):
    """fork: yields previous value Option"""
    key = ex.deref1(key) if isinstance(key, Ref) and not isinstance(ex.load(key), (Lazy, Adt)) else key
    conds = []
    idxs = []
    for i, (k, present, cell) in enumerate(m.entries):
        eq = key_eq(ex, k, key)
        if conc_bool(eq) is False:
            continue
        conds.append(eq)
        idxs.append(i)
    miss = z3.And(*[z3.Not(c) for c in conds]) if conds else z3.BoolVal(True)
    for b in ex.branches(conds + [miss]):
        if b < len(idxs):
            i = idxs[b]
            k, present, cell = m.entries[i]
            old = cell.v
            tset(cell, "v", val)
            TRAIL.append((m.entries, None, i, m.entries[i]))   # list index restore through dict-style undo
            m.entries[i] = (k, z3.BoolVal(True), cell)
            pc = conc_bool(present)
            if pc is True:
                yield Some(old) if not m.is_set else z3.BoolVal(False)
            elif pc is False:
                yield NONE if not m.is_set else z3.BoolVal(True)
            else:
                for bb in ex.branches([present, z3.Not(present)]):
                    if m.is_set:
                        yield z3.BoolVal(bb == 1)
                    else:
                        yield Some(old) if bb == 0 else NONE
        else:
            tappend(m.entries, (key, z3.BoolVal(True), Cell(val)))
            yield NONE if not m.is_set else z3.BoolVal(True)


class _ListAsDict:
    pass


# the trail's dict-undo works on lists too as long as "missing" never happens (index assignment) — see core.undo


# ------------------------------------------------------------------------------------------------ numbers
def to_fp(ex, a):
    """i32 -> f32, round to nearest even"""
    from .core import i32_to_f32
    return i32_to_f32(a)


def install(ex):
    M = []

    def model(pat, label=None):
        def deco(fn):
            M.append((re.compile(pat), fn, label or fn.__name__))
            return fn
        return deco

    # ---------------------------------------------------------------- Try / residual
    @model(r"as Try>::branch$", "Try::branch (Result/Option)")
    def try_branch(ex, callee, args, rt):
        (r,) = args
        st = base_ty(self_type(callee))
        if st == "Result":
            for v in enum_branch(ex, r, ["Ok", "Err"]):
                if v == "Ok":
                    yield Adt("ControlFlow", "Continue", [variant_field(ex, r, "Ok", 0, generic_args(self_type(callee))[0])])
                else:
                    yield Adt("ControlFlow", "Break", [Err(variant_field(ex, r, "Err", 0, generic_args(self_type(callee))[1]))])
            return
        if st == "Option":
            for v in enum_branch(ex, r, ["Some", "None"]):
                if v == "Some":
                    yield Adt("ControlFlow", "Continue", [variant_field(ex, r, "Some", 0, generic_args(self_type(callee))[0])])
                else:
                    yield Adt("ControlFlow", "Break", [NONE])
            return
        raise NoModel()

    @model(r"as FromResidual<.*>>::from_residual$", "FromResidual::from_residual")
    def from_residual(ex, callee, args, rt):
        (r,) = args
        st = base_ty(self_type(callee))
        if st == "Result":
            e = r.fields[0]
            # `?` converts the error with From: only the identity conversion occurs on the encoded paths, others resolve in-crate
            m = re.search(r"FromResidual<(.*)>>::from_residual$", callee, re.S)
            src_err = generic_args(m.group(1))[1] if m else None
            dst_err = generic_args(self_type(callee))[1]
            if src_err and _norm(src_err) != _norm(dst_err):
                f = ex.resolve("<%s as From<%s>>::from" % (dst_err, src_err))
                if f is None:
                    raise Unsupported("error conversion %s -> %s" % (src_err, dst_err))
                for v in ex.run(f, [e]):
                    yield Err(v)
                return
            yield Err(e)
            return
        if st == "Option":
            yield NONE
            return
        raise NoModel()

    @model(r"as Try>::from_output$", "Try::from_output")
    def from_output(ex, callee, args, rt):
        st = base_ty(self_type(callee))
        yield Ok(args[0]) if st == "Result" else Some(args[0])

    # ---------------------------------------------------------------- Option / Result
    @model(r"^(std::option::)?Option::<?.*>?::(unwrap|expect)$|^Option::(unwrap|expect)$", "Option::unwrap/expect")
    def opt_unwrap(ex, callee, args, rt):
        o = args[0]
        for v in enum_branch(ex, o, ["Some", "None"]):
            if v == "Some":
                yield variant_field(ex, o, "Some", 0, rt)
            else:
                ex.panic("called `Option::unwrap()` on a `None` value", callee)

    @model(r"^(std::result::)?Result::(unwrap|expect)$", "Result::unwrap/expect")
    def res_unwrap(ex, callee, args, rt):
        o = args[0]
        for v in enum_branch(ex, o, ["Ok", "Err"]):
            if v == "Ok":
                yield variant_field(ex, o, "Ok", 0, rt)
            else:
                ex.panic("called `Result::unwrap()` on an `Err` value", callee)

    @model(r"^(std::option::)?Option::(is_none|is_some)$", "Option::is_none/is_some")
    def opt_is(ex, callee, args, rt):
        o = ex.deref(args[0])
        want = "None" if callee.endswith("is_none") else "Some"
        yield ex.is_variant(o, want)

    @model(r"^(std::result::)?Result::(is_ok|is_err)$", "Result::is_ok/is_err")
    def res_is(ex, callee, args, rt):
        o = ex.deref(args[0])
        yield ex.is_variant(o, "Ok" if callee.endswith("is_ok") else "Err")

    @model(r"^(std::option::)?Option::(as_ref|as_mut)$", "Option::as_ref/as_mut")
    def opt_as_ref(ex, callee, args, rt):
        r = args[0]
        o = ex.deref(r)
        for v in enum_branch(ex, o, ["Some", "None"]):
            if v == "Some":
                if isinstance(r, Ref):
                    yield Some(Ref(r.cell, r.path + (("d", "Some"), ("f", 0, "?"))))
                else:
                    yield Some(Ref(Cell(variant_field(ex, o, "Some", 0))))
            else:
                yield NONE

    @model(r"^(std::option::)?Option::take$", "Option::take")
    def opt_take(ex, callee, args, rt):
        r = args[0]
        o = ex.load(r)
        ex.store(r, NONE)
        yield o

    @model(r"^(std::option::)?Option::(map|and_then)$", "Option::map/and_then")
    def opt_map(ex, callee, args, rt):
        o, f = args
        flat = callee.endswith("and_then")
        for v in enum_branch(ex, o, ["Some", "None"]):
            if v == "Some":
                for r in ex.call_closure(f, [variant_field(ex, o, "Some", 0)]):
                    yield r if flat else Some(r)
            else:
                yield NONE

    @model(r"^(std::option::)?Option::(cloned|copied)$", "Option::cloned / copied (Clone = identity on immutable data)")
    def opt_cloned(ex, callee, args, rt):
        o = args[0]
        for v in enum_branch(ex, o, ["Some", "None"]):
            yield Some(ex.deref1(variant_field(ex, o, "Some", 0))) if v == "Some" else NONE

    @model(r"^(std::option::)?Option::(unwrap_or_else|unwrap_or_default|map_or|map_or_else|is_some_and|filter|or_else)$", "Option::unwrap_or_else / map_or / map_or_else / is_some_and / filter / or_else")
    def opt_more(ex, callee, args, rt):
        op = strip_turbofish(callee).rsplit("::", 1)[1]
        o = args[0]
        for v in enum_branch(ex, o, ["Some", "None"]):
            x = variant_field(ex, o, "Some", 0) if v == "Some" else None
            if op == "unwrap_or_else":
                if v == "Some":
                    yield x
                else:
                    yield from ex.call_closure(args[1], [])
            elif op == "map_or":
                if v == "Some":
                    yield from ex.call_closure(args[2], [x])
                else:
                    yield args[1]
            elif op == "map_or_else":
                if v == "Some":
                    yield from ex.call_closure(args[2], [x])
                else:
                    yield from ex.call_closure(args[1], [])
            elif op == "is_some_and":
                if v == "Some":
                    yield from ex.call_closure(args[1], [x])
                else:
                    yield z3.BoolVal(False)
            elif op == "filter":
                if v == "Some":
                    for keep in ex.call_closure(args[1], [Ref(Cell(x))]):
                        for b in ex.branches([keep, z3.Not(keep)]):
                            yield Some(x) if b == 0 else NONE
                else:
                    yield NONE
            elif op == "or_else":
                if v == "Some":
                    yield o
                else:
                    yield from ex.call_closure(args[1], [])
            else:
                raise Unsupported("Option::" + op)

    @model(r"^<&?(std::rc::)?Rc<.*> as PartialEq>::(eq|ne)$|^<&?(std::boxed::)?Box<.*> as PartialEq>::(eq|ne)$|^<(std::cell::)?RefCell<.*> as PartialEq>::(eq|ne)$|^<(std::vec::)?Vec<.*> as PartialEq>::(eq|ne)$|^<\\[.*\\] as PartialEq>::(eq|ne)$",
           "PartialEq on Rc / Box / RefCell / Vec: contents compared structurally (elements by their own PartialEq)")
    def container_eq(ex, callee, args, rt):
        neg = callee.endswith("ne")

        def inner_ty(t):
            ga = generic_args(t.lstrip("&").strip())
            return ga[0] if ga else None

        def eq(a, b, ty):
            a, b = ex.deref(a), ex.deref(b)
            if isinstance(a, SeqObj) and isinstance(b, SeqObj):
                et = None
                if ty:
                    t = ty.strip()
                    while base_ty(t) in ("Rc", "Box", "RefCell"):
                        t = inner_ty(t) or ""
                    et = inner_ty(t) if base_ty(t) in ("Vec", "SmallVec") else (t[1:-1] if t.startswith("[") else None)
                conds = [zint(a.ln) == zint(b.ln)]
                for i in range(min(a.max, b.max)):
                    xa, xb = ex.seq_item(a, i).v, ex.seq_item(b, i).v
                    if xa is None or xb is None:
                        continue
                    if xa is xb:
                        continue
                    if et is None:
                        raise Unsupported("element type of compared containers unknown: " + callee)
                    rs = list(ex.call("<%s as PartialEq>::eq" % et, [Ref(Cell(xa)), Ref(Cell(xb))], "bool", 2))
                    if len(rs) != 1:
                        raise Unsupported("element equality forked")
                    conds.append(z3.Or(zint(a.ln) <= i, rs[0]))
                return z3.And(*conds)
            if a is b:
                return z3.BoolVal(True)
            if isinstance(a, (Adt, Lazy)) and isinstance(b, (Adt, Lazy)) and ty:
                # a smart pointer to a crate type: the pointee's own (derived) equality
                t = ty.strip().lstrip("&").strip()
                while base_ty(t) in ("Rc", "Box", "RefCell"):
                    t = inner_ty(t) or ""
                if t:
                    rs = list(ex.call("<%s as PartialEq>::eq" % t, [Ref(Cell(a)), Ref(Cell(b))], "bool", 2))
                    if len(rs) == 1:
                        return rs[0]
                    raise Unsupported("pointee equality forked")
            raise Unsupported("container equality on %r %r" % (a, b))

        r = eq(args[0], args[1], self_type(callee))
        yield z3.Not(r) if neg else r

    @model(r"^(std::option::)?Option::or$", "Option::or")
    def opt_or(ex, callee, args, rt):
        a, b = args
        for v in enum_branch(ex, a, ["Some", "None"]):
            yield a if v == "Some" else b

    @model(r"^(std::option::)?Option::(ok_or)$", "Option::ok_or")
    def opt_ok_or(ex, callee, args, rt):
        o, e = args
        for v in enum_branch(ex, o, ["Some", "None"]):
            yield Ok(variant_field(ex, o, "Some", 0)) if v == "Some" else Err(e)

    @model(r"^<(i64|i128|isize|u64|u128|usize|i32|u32) as From<(i8|i16|i32|u8|u16|u32|bool|char)>>::from$", "lossless integer widening")
    def int_from(ex, callee, args, rt):
        v = args[0]
        if is_z3(v) and z3.is_bool(v):
            v = z3.If(v, 1, 0)
        yield v

    @model(r"^(core::)?char::methods::<impl char>::(to_ascii_lowercase|to_ascii_uppercase)$", "char ASCII case conversion")
    def char_case(ex, callee, args, rt):
        c = ex.deref(args[0])
        if callee.endswith("lowercase"):
            yield z3.If(z3.And(c >= 65, c <= 90), c + 32, c)
        else:
            yield z3.If(z3.And(c >= 97, c <= 122), c - 32, c)

    @model(r"^<(usize|u32|u64|u8|u16) as TryFrom<(i32|i64|isize|i8|i16)>>::try_from$|^<(i32|i64|isize|i8|i16|u8|u16|u32) as TryFrom<(usize|u32|u64|i64|isize|i32)>>::try_from$", "integer TryFrom: Ok inside the target range, Err outside")
    def int_try_from(ex, callee, args, rt):
        v = args[0]
        target = re.match(r"^<(\w+) as", callee).group(1)
        lo, hi = INT_RANGES[target]
        for i in ex.branches([z3.And(v >= lo, v <= hi), z3.Or(v < lo, v > hi)]):
            yield Ok(v) if i == 0 else Err(Opaque("TryFromIntError", "out of range"))

    @model(r"^(std::string::)?String::with_capacity$", "String::with_capacity")
    def string_with_capacity(ex, callee, args, rt):
        yield CharStr(()) if getattr(ex, "string_mode", "") == "chars" else StrVal("")

    @model(r"^(std::result::)?Result::(unwrap_or_default|unwrap_or)$", "Result::unwrap_or_default / unwrap_or (integer / boolean defaults)")
    def res_unwrap_or(ex, callee, args, rt):
        o = args[0]
        for v in enum_branch(ex, o, ["Ok", "Err"]):
            if v == "Ok":
                yield variant_field(ex, o, "Ok", 0)
            elif strip_turbofish(callee).endswith("unwrap_or"):
                yield args[1]
            elif rt.strip() in INT_RANGES:
                yield z3.IntVal(0)
            elif rt.strip() == "bool":
                yield z3.BoolVal(False)
            else:
                raise Unsupported("Default of " + rt)

    @model(r"^<.* as (Fn|FnMut|FnOnce)<\(.*\)>>::(call|call_mut|call_once)$", "calling a closure / function value through the Fn traits")
    def fn_trait_call(ex, callee, args, rt):
        f = args[0]
        tup = ex.deref(args[1]) if len(args) > 1 else Tup([])
        items = list(tup.items) if isinstance(tup, Tup) else [tup]
        yield from ex.call_closure(f, items)

    @model(r"^((core|std)::hint::)?must_use$|^((core|std)::hint::)?black_box$", "hint::must_use / black_box: identity")
    def must_use(ex, callee, args, rt):
        yield args[0]

    @model(r"^<(.+) as Into<(std::option::)?Option<(.+)>>>::into$|^<(std::option::)?Option<(.+)> as From<(.+)>>::from$", "T -> Option<T> (Some)")
    def into_option(ex, callee, args, rt):
        yield Some(args[0])

    @model(r"^(either::)?Either::(<.*>::)?(left|right|is_left|is_right)$", "either::Either::left / right / is_left / is_right")
    def either_side(ex, callee, args, rt):
        e = ex.deref(args[0])
        op = strip_turbofish(callee).rsplit("::", 1)[1]
        ENUMS.setdefault("Either", ["Left", "Right"])
        for v in enum_branch(ex, e, ["Left", "Right"]):
            if op in ("left", "right"):
                yield Some(variant_field(ex, e, v, 0)) if v.lower() == op else NONE
            else:
                yield z3.BoolVal(("is_" + v.lower()) == op)

    @model(r"^(std::option::)?Option::transpose$", "Option<Result<T, E>>::transpose")
    def opt_transpose(ex, callee, args, rt):
        o = args[0]
        for v in enum_branch(ex, o, ["Some", "None"]):
            if v == "None":
                yield Ok(NONE)
            else:
                r = variant_field(ex, o, "Some", 0)
                for w in enum_branch(ex, r, ["Ok", "Err"]):
                    yield Ok(Some(variant_field(ex, r, "Ok", 0))) if w == "Ok" else Err(variant_field(ex, r, "Err", 0))

    @model(r"^(std::result::)?Result::transpose$", "Result<Option<T>, E>::transpose")
    def res_transpose(ex, callee, args, rt):
        r = args[0]
        for w in enum_branch(ex, r, ["Ok", "Err"]):
            if w == "Err":
                yield Some(Err(variant_field(ex, r, "Err", 0)))
            else:
                o = variant_field(ex, r, "Ok", 0)
                for v in enum_branch(ex, o, ["Some", "None"]):
                    yield Some(Ok(variant_field(ex, o, "Some", 0))) if v == "Some" else NONE

    @model(r"^(std::option::)?Option::(ok_or_else)$", "Option::ok_or_else")
    def opt_ok_or_else(ex, callee, args, rt):
        o, f = args
        for v in enum_branch(ex, o, ["Some", "None"]):
            if v == "Some":
                yield Ok(variant_field(ex, o, "Some", 0))
            else:
                for e in ex.call_closure(f, []):
                    yield Err(e)

    @model(r"^(std::option::)?Option::(unwrap_or)$", "Option::unwrap_or")
    def opt_unwrap_or(ex, callee, args, rt):
        o, d = args
        for v in enum_branch(ex, o, ["Some", "None"]):
            yield variant_field(ex, o, "Some", 0) if v == "Some" else d

    @model(r"^(std::result::)?Result::map$", "Result::map")
    def res_map(ex, callee, args, rt):
        o, f = args
        for v in enum_branch(ex, o, ["Ok", "Err"]):
            if v == "Ok":
                for r in ex.call_closure(f, [variant_field(ex, o, "Ok", 0)]):
                    yield Ok(r)
            else:
                yield Err(variant_field(ex, o, "Err", 0))

    @model(r"^(std::result::)?Result::map_err$", "Result::map_err")
    def res_map_err(ex, callee, args, rt):
        o, f = args
        for v in enum_branch(ex, o, ["Ok", "Err"]):
            if v == "Err":
                for r in ex.call_closure(f, [variant_field(ex, o, "Err", 0)]):
                    yield Err(r)
            else:
                yield Ok(variant_field(ex, o, "Ok", 0))

    @model(r"^(std::result::)?Result::ok$", "Result::ok")
    def res_ok(ex, callee, args, rt):
        (o,) = args
        for v in enum_branch(ex, o, ["Ok", "Err"]):
            yield Some(variant_field(ex, o, "Ok", 0)) if v == "Ok" else NONE

    # ---------------------------------------------------------------- integers
    @model(r"^core::num::<impl i32>::abs$", "i32::abs (overflow on MIN = panic in dev)")
    def i32_abs(ex, callee, args, rt):
        a = args[0]
        if getattr(ex, "overflow_checks", True):
            for i in ex.branches([a == -2**31, a != -2**31]):
                if i == 0:
                    ex.panic("attempt to negate with overflow (i32::abs)", callee)
                else:
                    yield z3.If(a < 0, -a, a)
        else:
            yield z3.If(a == -2**31, a, z3.If(a < 0, -a, a))

    @model(r"^core::num::<impl i32>::(div_euclid|rem_euclid)$", "i32::div_euclid / rem_euclid (fresh q, r with 0 <= r < |b|; b = 0 and MIN/-1 panic)")
    def i32_euclid(ex, callee, args, rt):
        a, b = args
        ca, cb = conc_int(a), conc_int(b)
        if ca is not None and cb is not None and cb != 0 and not (ca == -2**31 and cb == -1):
            r_ = ca % abs(cb)
            q_ = (ca - r_) // cb
            yield z3.IntVal(q_ if callee.endswith("div_euclid") else r_)
            return
        bad = z3.Or(b == 0, z3.And(a == -2**31, b == -1))
        for i in ex.branches([bad, z3.Not(bad)]):
            if i == 0:
                ex.panic("attempt to divide by zero / with overflow (euclid)", callee)
            else:
                q = z3.Int(ex.fresh_name("qe"))
                r = z3.Int(ex.fresh_name("re"))
                ex.ctx.add_global(z3.Implies(b != 0, z3.And(a == b * q + r, r >= 0, r < z3.If(b < 0, -b, b))))
                yield q if callee.endswith("div_euclid") else r

    @model(r"^core::num::<impl i32>::(signum|is_negative|is_positive|unsigned_abs|wrapping_abs|wrapping_neg|wrapping_add|wrapping_sub|wrapping_mul)$", "i32 helpers")
    def i32_misc(ex, callee, args, rt):
        op = callee.rsplit("::", 1)[1]
        a = args[0]
        lo, hi = INT_RANGES["i32"]
        if op == "signum":
            yield z3.If(a > 0, z3.IntVal(1), z3.If(a < 0, z3.IntVal(-1), z3.IntVal(0)))
        elif op == "is_negative":
            yield a < 0
        elif op == "is_positive":
            yield a > 0
        elif op == "unsigned_abs":
            yield z3.If(a < 0, -a, a)
        elif op == "wrapping_abs":
            yield wrap(z3.If(a < 0, -a, a), lo, hi)
        elif op == "wrapping_neg":
            yield wrap(-a, lo, hi)
        else:
            b = args[1]
            yield wrap({"wrapping_add": a + b, "wrapping_sub": a - b, "wrapping_mul": a * b}[op], lo, hi)

    @model(r"^core::num::<impl i32>::checked_(add|sub|mul|neg|abs|div|rem)$", "i32::checked_*")
    def i32_checked(ex, callee, args, rt):
        op = callee.rsplit("_", 1)[1]
        a = args[0]
        lo, hi = INT_RANGES["i32"]
        if op in ("div", "rem"):
            b = args[1]
            bad = z3.Or(b == 0, z3.And(a == lo, b == -1))
            for i in ex.branches([bad, z3.Not(bad)]):
                if i == 0:
                    yield NONE
                else:
                    q, r = ex.divrem(a, b)
                    yield Some(q if op == "div" else r)
            return
        if op == "neg":
            r = -a
        elif op == "abs":
            r = z3.If(a < 0, -a, a)
        else:
            b = args[1]
            r = {"add": a + b, "sub": a - b, "mul": a * b}[op]
        ovf = z3.Or(r < lo, r > hi)
        for i in ex.branches([ovf, z3.Not(ovf)]):
            yield NONE if i == 0 else Some(r)

    @model(r"^<(i32|u32|usize|i64) as Ord>::(min|max)$|^std::cmp::(min|max)$|^core::cmp::(min|max)$", "min/max on integers")
    def int_minmax(ex, callee, args, rt):
        a, b = ex.deref(args[0]), ex.deref(args[1])
        if not (is_z3(a) and z3.is_int(a)):
            raise NoModel()
        yield z3.If(a <= b, a, b) if strip_turbofish(callee).endswith("min") else z3.If(a >= b, a, b)

    @model(r"^<T as PartialEq>::(eq|ne)$|^<[A-QS-Z] as PartialEq>::(eq|ne)$", "equality on an uninstantiated type parameter: true for the same object, otherwise an arbitrary boolean (over-approximation)")
    def generic_eq(ex, callee, args, rt):
        a, b = ex.deref(args[0]), ex.deref(args[1])
        if a is b:
            r = z3.BoolVal(True)
        else:
            r = ex.fresh_bool("geq")
        yield r if callee.endswith("eq") else z3.Not(r)

    @model(r"^<\(.*\) as PartialEq>::(eq|ne)$", "tuple equality, componentwise over scalars")
    def tuple_eq(ex, callee, args, rt):
        a, b = ex.deref(args[0]), ex.deref(args[1])
        if not (isinstance(a, Tup) and isinstance(b, Tup)):
            raise NoModel()
        parts = []
        for x, y in zip(a.items, b.items):
            if not (is_z3(x) and is_z3(y)):
                raise Unsupported("tuple equality over non-scalars")
            parts.append(x == y)
        e = z3.And(*parts) if parts else z3.BoolVal(True)
        yield e if callee.endswith("eq") else z3.Not(e)

    @model(r"^<&?(i32|u32|usize|i64|u64) as (Add|Sub|Mul)(<&?\\w+>)?>::(add|sub|mul)$", "std forwarding impls of + - * on (&)integers: overflow = panic with overflow checks (rustc_inherit_overflow_checks), wrap without")
    def ref_arith(ex, callee, args, rt):
        a = ex.deref(args[0])
        b = ex.deref(args[1])
        op = callee.rsplit("::", 1)[1]
        ty = re.match(r"^<&?(\w+) as", callee).group(1)
        lo, hi = INT_RANGES[ty]
        r = {"add": a + b, "sub": a - b, "mul": a * b}[op]
        if getattr(ex, "overflow_checks", True):
            ovf = z3.Or(r < lo, r > hi)
            for i in ex.branches([ovf, z3.Not(ovf)]):
                if i == 0:
                    ex.panic("attempt to %s with overflow" % {"add": "add", "sub": "subtract", "mul": "multiply"}[op], callee)
                else:
                    yield r
        else:
            yield wrap(r, lo, hi)

    @model(r"^<(&(mut )?)*(i32|u32|usize|i64|u64|u8|char|isize) as PartialOrd(<.*>)?>::partial_cmp$", "PartialOrd::partial_cmp on primitive integers/char")
    def prim_partial_cmp(ex, callee, args, rt):
        a = ex.deref(args[0])
        b = ex.deref(args[1])
        for i in ex.branches([a < b, a == b, a > b]):
            yield Some(Adt("Ordering", ("Less", "Equal", "Greater")[i], []))

    @model(r"^<(&(mut )?)*(i32|u32|usize|i64|u64|u8|char|isize) as Ord>::cmp$", "Ord::cmp on primitive integers/char")
    def prim_cmp(ex, callee, args, rt):
        a = ex.deref(args[0])
        b = ex.deref(args[1])
        for i in ex.branches([a < b, a == b, a > b]):
            yield Adt("Ordering", ("Less", "Equal", "Greater")[i], [])

    @model(r"^<(&(mut )?)*(i32|u32|usize|i64|u64|u8|char|isize|bool) as PartialEq(<.*>)?>::(eq|ne)$", "PartialEq on primitives")
    def prim_eq(ex, callee, args, rt):
        a = ex.deref(args[0])
        b = ex.deref(args[1])
        yield (a == b) if callee.endswith("eq") else (a != b)

    @model(r"^<(&(mut )?)*(i32|u32|usize|i64|u64|u8|char|isize) as PartialOrd(<.*>)?>::(lt|le|gt|ge)$", "PartialOrd lt/le/gt/ge on primitives")
    def prim_ord(ex, callee, args, rt):
        a = ex.deref(args[0])
        b = ex.deref(args[1])
        op = callee[-2:]
        yield {"lt": a < b, "le": a <= b, "gt": a > b, "ge": a >= b}[op]

    # ---------------------------------------------------------------- default PartialOrd / PartialEq methods over crate impls
    @model(r"^<.+ as PartialOrd>::(lt|le|gt|ge)$", "PartialOrd::{lt,le,gt,ge} = std default bodies over the crate's partial_cmp")
    def default_ord(ex, callee, args, rt):
        st = self_type(callee)
        f = ex.resolve("<%s as PartialOrd>::partial_cmp" % st)
        if f is None:
            raise NoModel()
        op = callee[-2:]
        want = {"lt": ("Less",), "le": ("Less", "Equal"), "gt": ("Greater",), "ge": ("Greater", "Equal")}[op]
        for o in ex.run(f, args, 1):
            if isinstance(o, Adt):
                yield z3.BoolVal(o.variant == "Some" and o.fields[0].variant in want)
            else:
                raise Unsupported("symbolic Option<Ordering> result")

    @model(r"^<.+ as PartialEq>::ne$", "PartialEq::ne = !eq (std default)")
    def default_ne(ex, callee, args, rt):
        st = self_type(callee)
        f = ex.resolve("<%s as PartialEq>::eq" % st)
        if f is None:
            raise NoModel()
        for o in ex.run(f, args, 1):
            yield z3.Not(o)

    # ---------------------------------------------------------------- floats (R = f32)
    @model(r"^<R as NumCast>::from$|^<f32 as NumCast>::from$", "NumCast::from::<i32|f64> for f32 = Some(to_fp RNE)")
    def numcast(ex, callee, args, rt):
        a = args[0]
        if not ex.use_fp:
            yield Some(Opaque("R", "from(%s)" % a))
            return
        if z3.is_fp(a):
            yield Some(z3.fpFPToFP(z3.RNE(), a, z3.Float32()))
        else:
            yield Some(to_fp(ex, a))

    @model(r"^<R as (Add|Sub|Mul|Div|Rem)(<R>)?>::(add|sub|mul|div|rem)$", "f32 arithmetic = IEEE-754 binary32 RNE")
    def fp_arith(ex, callee, args, rt):
        a, b = [ex.deref(x) for x in args]
        op = callee.rsplit("::", 1)[1]
        if not ex.use_fp:
            yield Opaque("R", "%s(%s,%s)" % (op, a, b))
            return
        if op == "rem":
            raise Unsupported("f32 rem")
        yield {"add": z3.fpAdd, "sub": z3.fpSub, "mul": z3.fpMul, "div": z3.fpDiv}[op](z3.RNE(), a, b)

    @model(r"^<R as Neg>::neg$", "f32 neg")
    def fp_neg(ex, callee, args, rt):
        yield z3.fpNeg(ex.deref(args[0]))

    @model(r"^<R as PartialOrd>::partial_cmp$", "f32 partial_cmp (None on NaN)")
    def fp_cmp(ex, callee, args, rt):
        x, y = [ex.deref(a) for a in args]
        conds = [z3.fpLT(x, y), z3.fpEQ(x, y), z3.fpGT(x, y), z3.Or(z3.fpIsNaN(x), z3.fpIsNaN(y))]
        for i in ex.branches(conds):
            yield Some(Adt("Ordering", ("Less", "Equal", "Greater")[i], [])) if i < 3 else NONE

    @model(r"^<R as PartialOrd>::(lt|le|gt|ge)$", "f32 lt/le/gt/ge")
    def fp_ord(ex, callee, args, rt):
        x, y = [ex.deref(a) for a in args]
        yield {"lt": z3.fpLT, "le": z3.fpLEQ, "gt": z3.fpGT, "ge": z3.fpGEQ}[callee[-2:]](x, y)

    @model(r"^<R as PartialEq>::(eq|ne)$", "f32 eq/ne (IEEE)")
    def fp_eq(ex, callee, args, rt):
        x, y = [ex.deref(a) for a in args]
        yield z3.fpEQ(x, y) if callee.endswith("eq") else z3.Not(z3.fpEQ(x, y))

    @model(r"^<R as (num_traits::real::)?Real>::(floor|ceil|abs|round)$|^<R as Float>::(floor|ceil|abs|round)$", "Real::{floor,ceil,abs,round} on f32")
    def fp_round(ex, callee, args, rt):
        x = ex.deref(args[0])
        op = callee.rsplit("::", 1)[1]
        if op == "abs":
            yield z3.fpAbs(x)
        elif op == "floor":
            yield z3.fpRoundToIntegral(z3.RTN(), x)
        elif op == "ceil":
            yield z3.fpRoundToIntegral(z3.RTP(), x)
        else:
            yield z3.fpRoundToIntegral(z3.RNA(), x)

    @model(r"^<R as (num_traits::real::)?Real>::(sqrt|exp|ln|log|sin|cos|tan|asin|acos|atan|atan2)$", "transcendental f32 functions: uninterpreted")
    def fp_uninterp(ex, callee, args, rt):
        op = callee.rsplit("::", 1)[1]
        F = z3.Float32()
        f = z3.Function("fp_" + op, *([F] * len(args) + [F]))
        yield f(*[ex.deref(a) for a in args])

    @model(r"^<R as ToPrimitive>::to_i32$", "ToPrimitive::to_i32 on f32 (range-checked truncation)")
    def fp_to_i32(ex, callee, args, rt):
        x = ex.deref(args[0])
        lo = z3.FPVal(-2147483648.0, z3.Float32())
        hi = z3.FPVal(2147483648.0, z3.Float32())
        ok = z3.And(z3.Not(z3.fpIsNaN(x)), z3.fpGT(x, z3.fpSub(z3.RNE(), lo, z3.FPVal(1.0, z3.Float32()))), z3.fpLT(x, hi))
        for i in ex.branches([ok, z3.Not(ok)]):
            if i == 0:
                v = ex.fresh_int("toi32", "i32")
                ex.ctx.add(v == z3.BV2Int(z3.fpToSBV(z3.RTZ(), x, z3.BitVecSort(32)), True))
                yield Some(v)
            else:
                yield NONE

    # ---------------------------------------------------------------- pointers, cells, clones
    @model(r"^(std::rc::)?Rc::<?.*>?::new$|^Rc::new$|^(std::boxed::)?Box::new$|^Box::<.*>::new$", "Rc::new / Box::new = fresh identity cell")
    def rc_new(ex, callee, args, rt):
        yield Ref(Cell(args[0], ex.fresh_name("heap")))

    @model(r"^(std::boxed::)?Box::(<.*>::)?new_uninit$", "Box::new_uninit (vec![..] lowering): a box holding an uninitialised slot")
    def box_new_uninit(ex, callee, args, rt):
        yield Ref(Cell(Transparent(None), ex.fresh_name("uninit")))

    @model(r"box_assume_init_into_vec_unsafe$|^(std::boxed::)?Box::(<.*>::)?assume_init$", "Box<MaybeUninit<[T; N]>> -> Vec<T> / Box<[T; N]> (vec![..] lowering)")
    def box_assume_init(ex, callee, args, rt):
        w = ex.load(args[0]) if isinstance(args[0], Ref) else args[0]
        v = w.v if isinstance(w, Transparent) else w
        if v is None:
            raise Unsupported("assume_init of a box that was never written")
        if callee.rstrip().endswith("assume_init"):
            yield Ref(Cell(v))
        else:
            yield v

    @model(r"^(std::rc::)?Rc::ptr_eq$|^Rc::<.*>::ptr_eq$", "Rc::ptr_eq = identity of the model cell")
    def rc_ptr_eq(ex, callee, args, rt):
        a = ex.load(args[0])
        b = ex.load(args[1])
        if isinstance(a, Ref) and isinstance(b, Ref):
            hook = getattr(ex, "ptr_eq_hook", None)
            if hook:
                r = hook(ex, a, b)
                if r is not None:
                    yield r
                    return
            yield z3.BoolVal(a.cell is b.cell and a.path == b.path)
            return
        raise Unsupported("Rc::ptr_eq on %r %r" % (a, b))

    @model(r"^std::ptr::eq$|^core::ptr::eq$", "ptr::eq = identity")
    def ptr_eq(ex, callee, args, rt):
        a, b = args
        if isinstance(a, Ref) and isinstance(b, Ref):
            yield z3.BoolVal(a.cell is b.cell and a.path == b.path)
            return
        raise Unsupported("ptr::eq on %r %r" % (a, b))

    @model(r"^<.+ as Clone>::clone$", "Clone: identity for immutable data and Rc; element-wise copy for Vec/SmallVec/Box; crate types listed in ex.inline_clone_types run their derived MIR")
    def clone(ex, callee, args, rt):
        st = self_type(callee)
        b = base_ty(st)
        if b in getattr(ex, "inline_clone_types", ()):
            raise NoModel()
        v = ex.load(args[0]) if isinstance(args[0], Ref) else args[0]
        if b == "Rc":
            yield v
            return
        if isinstance(v, SeqObj):
            yield _copy_seq(ex, v)
            return
        if isinstance(v, MapObj):
            m = MapObj(ex.fresh_name("mapclone"), v.is_set)
            m.entries = [(k, p, Cell(c.v)) for (k, p, c) in v.entries]
            yield m
            return
        if b == "Box" and isinstance(v, Ref):
            inner = ex.load(v)
            if isinstance(inner, SeqObj):
                inner = _copy_seq(ex, inner)
            yield Ref(Cell(inner, ex.fresh_name("boxclone")))
            return
        yield v

    def _copy_seq(ex, v):
        cells = []
        for i in range(v.max):
            c = ex.seq_item(v, i) if (isinstance(v.ln, int) and i < v.ln) or not isinstance(v.ln, int) else v.items[i]
            cells.append(Cell(c.v))
        s = SeqObj(ex.fresh_name("seqclone"), v.elem_ty, cells, v.ln, v.max)
        return s

    @model(r"^<(std::rc::)?Rc<.*> as (Deref|AsRef<.*>|Borrow<.*>)>::(deref|as_ref|borrow)$|^<(std::boxed::)?Box<.*> as (Deref|DerefMut|AsRef<.*>|AsMut<.*>)>::(deref|deref_mut|as_ref|as_mut)$",
           "Deref/AsRef on Rc/Box = the pointer itself")
    def ptr_deref(ex, callee, args, rt):
        r = ex.load(args[0])
        if isinstance(r, Ref):
            yield r
        else:
            yield Ref(Cell(r))

    @model(r"^<(std::string::)?String as (Deref|AsRef<str>|Borrow<str>)>::\w+$|^(std::string::)?String::as_str$|^<str as AsRef<str>>::as_ref$|^<&str as .*>::as_ref$|^<(std::string::)?String as AsRef<.*>>::as_ref$", "String -> &str views")
    def string_deref(ex, callee, args, rt):
        yield ex.deref(args[0])

    @model(r"^<(std::vec::)?Vec<.*> as (Deref|DerefMut|AsRef<.*>)>::\w+$|^<(smallvec::)?SmallVec<.*> as (Deref|DerefMut|AsRef<.*>)>::\w+$|^(std::vec::)?Vec::<?.*>?::as_slice$|^Vec::as_slice$|^SmallVec::as_slice$", "Vec/SmallVec -> slice views (same object)")
    def vec_deref(ex, callee, args, rt):
        yield ex.deref(args[0])

    @model(r"^(cell|std::cell|core::cell)::RefCell::(<.*>::)?(borrow|borrow_mut)$|^RefCell::(<.*>::)?(borrow|borrow_mut)$", "RefCell::borrow/borrow_mut = reference to the content (borrow flags not modelled)")
    def refcell_borrow(ex, callee, args, rt):
        r = args[0]
        yield r if isinstance(r, Ref) else Ref(Cell(r))

    @model(r"^(cell|std::cell|core::cell)::RefCell::(<.*>::)?new$|^RefCell::(<.*>::)?new$", "RefCell::new = content")
    def refcell_new(ex, callee, args, rt):
        yield args[0]

    @model(r"^<(cell::|std::cell::|core::cell::)?(Ref|RefMut)<.*> as (Deref|DerefMut)>::(deref|deref_mut)$", "Deref on Ref/RefMut guards")
    def guard_deref(ex, callee, args, rt):
        g = ex.load(args[0])
        yield g if isinstance(g, Ref) else Ref(Cell(g))

    @model(r"^<dyn Deref<.*> as Deref>::deref$", "dyn Deref (Box<dyn Deref<Target=Vec<T>>> of ValueReference::as_ref): the boxed &Vec / Ref<Vec> guard")
    def dyn_deref(ex, callee, args, rt):
        g = ex.load(args[0]) if isinstance(args[0], Ref) else args[0]
        while isinstance(g, Ref) and isinstance(ex.load(g), Ref):
            g = ex.load(g)
        yield g if isinstance(g, Ref) else Ref(Cell(g))

    @model(r"^(cell::|std::cell::|core::cell::)?(Ref|RefMut)::(<.*>::)?map$", "Ref::map / RefMut::map = closure applied to the guarded reference")
    def guard_map(ex, callee, args, rt):
        g, f = args
        for r in ex.call_closure(f, [g]):
            yield r

    @model(r"^(cell::)?Ref::(<.*>::)?map_val$", "cell::Ref::map_val")
    def guard_map_val(ex, callee, args, rt):
        g, f = args
        for r in ex.call_closure(f, [g]):
            yield r

    @model(r"^<.+ as Drop>::drop$|^std::mem::drop$|^core::mem::drop$|^drop$", "explicit drops: no effect (drops are not modelled; the crate defines no Drop impl)")
    def drop_(ex, callee, args, rt):
        yield UNIT

    @model(r"^std::mem::(take|replace|swap)$|^core::mem::(take|replace|swap)$", "mem::take/replace/swap")
    def mem_ops(ex, callee, args, rt):
        op = callee.rsplit("::", 1)[1] if "::<" not in callee else strip_turbofish(callee).rsplit("::", 1)[1]
        if op == "swap":
            a, b = args
            va, vb = ex.load(a), ex.load(b)
            ex.store(a, vb)
            ex.store(b, va)
            yield UNIT
        elif op == "replace":
            a, v = args
            old = ex.load(a)
            ex.store(a, v)
            yield old
        else:
            raise Unsupported("mem::take needs Default of the type")

    # ---------------------------------------------------------------- strings / formatting
    @model(r"^<.+ as ToString>::to_string$|^<str as ToOwned>::to_owned$|^<String as From<&str>>::from$|^<&str as Into<String>>::into$|^String::from$", "to_string/to_owned: identity on strings, opaque string otherwise")
    def to_string(ex, callee, args, rt):
        v = ex.deref(args[0])
        if isinstance(v, (StrVal, CharStr)):
            yield v
        else:
            yield fresh_str(ex, "fmt")

    @model(r"^(alloc|std)::fmt::format$|^format$|^std::fmt::Arguments::<'_>::new.*$|^core::fmt::rt::.*$|^Arguments::<'_>::.*$|^std::fmt::Arguments::.*$|^core::fmt::Arguments::.*$|^Argument::<'_>::new_\w+$|^Argument::new_\w+$|^Arguments::\w+$|^core::fmt::rt::Argument::.*$|^format_inner$", "formatting machinery: opaque string")
    def fmt_any(ex, callee, args, rt):
        hook = getattr(ex, "format_hook", None)
        if hook:
            r = hook(ex, callee, args, rt)
            if r is not None:
                yield r
                return
        if base_ty(rt) == "String":
            yield fresh_str(ex, "fmt")
        else:
            yield Opaque(rt, "fmt")

    @model(r"as Itertools>::join$|^itertools::join$|^join$", "Itertools::join: opaque string")
    def it_join(ex, callee, args, rt):
        yield fresh_str(ex, "join")

    @model(r"^<(&(mut )?)*(std::string::)?(String|str) as PartialEq(<.*>)?>::(eq|ne)$", "string equality (through any number of references)")
    def string_eq(ex, callee, args, rt):
        e = str_eq(ex, args[0], args[1])
        yield e if re.search(r"::eq$", callee) else z3.Not(e)

    @model(r"^(core::)?char::methods::<impl char>::(is_ascii_digit|is_ascii_alphabetic|is_ascii_alphanumeric|is_ascii_whitespace|is_ascii_lowercase|is_ascii_uppercase|is_ascii|is_ascii_punctuation|is_ascii_hexdigit|is_whitespace|is_alphabetic|is_numeric|is_alphanumeric|is_control|is_lowercase|is_uppercase)$",
           "char classification: exact for the ASCII predicates and is_whitespace; Unicode alphabetic/numeric/case predicates are exact below U+0080 and an uninterpreted predicate above")
    def char_class(ex, callee, args, rt):
        c = ex.deref(args[0])
        op = callee.rsplit("::", 1)[1]
        rng = lambda a, b: z3.And(c >= ord(a), c <= ord(b))
        digit = rng("0", "9")
        lower = rng("a", "z")
        upper = rng("A", "Z")
        alpha = z3.Or(lower, upper)
        asc = c < 128
        def uni(name, ascii_part):
            f = z3.Function("unicode_" + name, z3.IntSort(), z3.BoolSort())
            return z3.If(asc, ascii_part, f(c))
        table = {
            "is_ascii_digit": digit, "is_ascii_alphabetic": alpha, "is_ascii_alphanumeric": z3.Or(alpha, digit),
            "is_ascii_whitespace": z3.Or(c == 32, c == 9, c == 10, c == 12, c == 13), "is_ascii_lowercase": lower, "is_ascii_uppercase": upper,
            "is_ascii": asc, "is_ascii_hexdigit": z3.Or(digit, rng("a", "f"), rng("A", "F")),
            "is_ascii_punctuation": z3.Or(z3.And(c >= 33, c <= 47), z3.And(c >= 58, c <= 64), z3.And(c >= 91, c <= 96), z3.And(c >= 123, c <= 126)),
            "is_whitespace": z3.Or(z3.And(c >= 9, c <= 13), c == 32, c == 0x85, c == 0xA0, c == 0x1680, z3.And(c >= 0x2000, c <= 0x200A), c == 0x2028, c == 0x2029, c == 0x202F, c == 0x205F, c == 0x3000),
            "is_control": z3.Or(c < 32, z3.And(c >= 127, c <= 159)),
        }
        if op in table:
            yield table[op]
        elif op == "is_alphabetic":
            yield uni("alphabetic", alpha)
        elif op == "is_numeric":
            yield uni("numeric", digit)
        elif op == "is_alphanumeric":
            yield uni("alphanumeric", z3.Or(alpha, digit))
        elif op == "is_lowercase":
            yield uni("lowercase", lower)
        elif op == "is_uppercase":
            yield uni("uppercase", upper)
        else:
            raise NoModel()

    @model(r"^(core::)?char::methods::<impl char>::(is_digit|to_digit)$", "char::is_digit / to_digit (radix 10 and 16)")
    def char_digit(ex, callee, args, rt):
        c = ex.deref(args[0])
        radix = conc_int(args[1])
        if radix not in (10, 16):
            raise Unsupported("char digit with radix %r" % (radix,))
        dec = z3.And(c >= 48, c <= 57)
        if radix == 10:
            ok, val = dec, c - 48
        else:
            lo = z3.And(c >= 97, c <= 102)
            up = z3.And(c >= 65, c <= 70)
            ok, val = z3.Or(dec, lo, up), z3.If(dec, c - 48, z3.If(lo, c - 87, c - 55))
        if callee.endswith("is_digit"):
            yield ok
        else:
            for i in ex.branches([ok, z3.Not(ok)]):
                yield Some(val) if i == 0 else NONE

    @model(r"^core::str::<impl str>::contains$|^str::contains$", "str::contains::<char> on a literal string")
    def str_contains(ex, callee, args, rt):
        sv = ex.deref(args[0])
        c = ex.deref(args[1])
        if isinstance(sv, StrVal) and sv.concrete() is not None and is_z3(c) and z3.is_int(c):
            yield z3.Or(*[c == ord(ch) for ch in sv.concrete()]) if sv.concrete() else z3.BoolVal(False)
            return
        if isinstance(sv, CharStr) and is_z3(c) and z3.is_int(c):
            yield z3.Or(*[c == x for x in sv.chars]) if sv.chars else z3.BoolVal(False)
            return
        raise Unsupported("str::contains on %r / %r" % (sv, c))

    @model(r"^core::str::<impl str>::(starts_with|ends_with)$", "str::starts_with / ends_with on z3 strings")
    def str_starts(ex, callee, args, rt):
        a, b = ex.deref(args[0]), ex.deref(args[1])
        if isinstance(a, StrVal) and isinstance(b, StrVal):
            yield z3.PrefixOf(b.t, a.t) if callee.endswith("starts_with") else z3.SuffixOf(b.t, a.t)
            return
        if isinstance(a, CharStr):
            if is_z3(b) and z3.is_int(b):
                pat = [b]
            elif isinstance(b, StrVal) and b.concrete() is not None:
                pat = [z3.IntVal(ord(ch)) for ch in b.concrete()]
            elif isinstance(b, CharStr):
                pat = list(b.chars)
            else:
                raise Unsupported("starts_with pattern %r" % (b,))
            if len(pat) > len(a.chars):
                yield z3.BoolVal(False)
                return
            part = a.chars[:len(pat)] if strip_turbofish(callee).endswith("starts_with") else a.chars[len(a.chars) - len(pat):]
            yield z3.And(*[x == y for x, y in zip(part, pat)]) if pat else z3.BoolVal(True)
            return
        raise Unsupported("starts_with on %r %r" % (a, b))

    @model(r"^core::str::<impl str>::(trim|trim_end|trim_start)$", "str::trim / trim_end / trim_start on character-list strings: one fork per number of white-space characters removed at each end")
    def str_trim(ex, callee, args, rt):
        a = ex.deref(args[0])
        if not isinstance(a, CharStr):
            raise Unsupported("trim on %r" % (a,))
        ws = lambda c: z3.Or(z3.And(c >= 9, c <= 13), c == 32, c == 0x85, c == 0xA0, c == 0x1680, z3.And(c >= 0x2000, c <= 0x200A), c == 0x2028, c == 0x2029, c == 0x202F, c == 0x205F, c == 0x3000)
        name = strip_turbofish(callee).split("::")[-1]
        chars = list(a.chars)

        def cuts(seq, on):
            # alternatives: exactly k white-space characters at the front of seq are removed
            if not on:
                return [(z3.BoolVal(True), 0)]
            out = []
            for k in range(len(seq) + 1):
                c = [ws(x) for x in seq[:k]]
                if k < len(seq):
                    c.append(z3.Not(ws(seq[k])))
                out.append((z3.And(*c) if c else z3.BoolVal(True), k))
            return out
        front = cuts(chars, name in ("trim", "trim_start"))
        for i in ex.branches([c for c, _ in front]):
            rest = chars[front[i][1]:]
            back = cuts(rest[::-1], name in ("trim", "trim_end"))
            for j in ex.branches([c for c, _ in back]):
                yield CharStr(rest[:len(rest) - back[j][1]])

    @model(r"^core::str::<impl str>::(strip_prefix|trim_start_matches)$", "str::strip_prefix (once) / trim_start_matches (repeatedly, up to 3 times in the model)")
    def str_strip(ex, callee, args, rt):
        a, b = ex.deref(args[0]), ex.deref(args[1])
        if isinstance(a, CharStr) and strip_turbofish(callee).endswith("strip_prefix"):
            # character-list strings: the pattern is a character or a literal string
            if is_z3(b) and z3.is_int(b):
                pat = [b]
            elif isinstance(b, StrVal) and b.concrete() is not None:
                pat = [z3.IntVal(ord(ch)) for ch in b.concrete()]
            elif isinstance(b, CharStr):
                pat = list(b.chars)
            else:
                raise Unsupported("strip_prefix pattern %r" % (b,))
            if len(a.chars) < len(pat):
                yield NONE
                return
            has = z3.And(*[x == y for x, y in zip(a.chars, pat)]) if pat else z3.BoolVal(True)
            for i in ex.branches([has, z3.Not(has)]):
                yield Some(CharStr(a.chars[len(pat):])) if i == 0 else NONE
            return
        if not (isinstance(a, StrVal) and isinstance(b, StrVal)):
            raise Unsupported("strip on %r %r" % (a, b))
        once = strip_turbofish(callee).endswith("strip_prefix")
        has = z3.PrefixOf(b.t, a.t)
        rest = z3.SubString(a.t, z3.Length(b.t), z3.Length(a.t) - z3.Length(b.t))
        if once:
            for i in ex.branches([has, z3.Not(has)]):
                yield Some(StrVal(rest)) if i == 0 else NONE
            return
        cur = a.t
        for _ in range(3):
            h = z3.And(z3.PrefixOf(b.t, cur), z3.Length(b.t) > 0)
            cur = z3.If(h, z3.SubString(cur, z3.Length(b.t), z3.Length(cur) - z3.Length(b.t)), cur)
        ex.ctx.add(z3.Not(z3.And(z3.PrefixOf(b.t, cur), z3.Length(b.t) > 0)))      # bound of the model: at most 3 repetitions
        yield StrVal(cur)

    @model(r"^<(std::string::)?String as (Ord|PartialOrd)>::(cmp|partial_cmp)$|^<str as (Ord|PartialOrd)>::(cmp|partial_cmp)$|^<&(std::string::)?String as (Ord|PartialOrd)>::(cmp|partial_cmp)$", "lexicographic string comparison (z3 str.<)")
    def str_cmp(ex, callee, args, rt):
        a, b = ex.deref(args[0]), ex.deref(args[1])
        if not (isinstance(a, StrVal) and isinstance(b, StrVal)):
            raise Unsupported("string comparison on %r %r" % (a, b))
        partial = callee.endswith("partial_cmp")
        for i in ex.branches([a.t < b.t, a.t == b.t, b.t < a.t]):
            o = Adt("Ordering", ("Less", "Equal", "Greater")[i], [])
            yield Some(o) if partial else o

    @model(r"^(core|std)::slice::<impl \[.*\]>::(sort_by_key|sort_unstable_by_key|sort_by_cached_key)$", "slice sort by a key closure (integer / boolean keys): stable insertion sort, each comparison forked")
    def slice_sort_by_key(ex, callee, args, rt):
        s_ = ex.deref(args[0])
        keyf = args[1]
        for n in seq_len_cases(ex, s_):
            vals = [ex.seq_item(s_, j).v for j in range(n)]

            def keys_of(j, acc):
                if j == n:
                    yield acc
                    return
                for k in ex.call_closure(keyf, [Ref(Cell(vals[j]))]):
                    if is_z3(k) and z3.is_bool(k):
                        k = z3.If(k, 1, 0)
                    if not (is_z3(k) and z3.is_int(k)):
                        raise Unsupported("sort key %r" % (k,))
                    yield from keys_of(j + 1, acc + [k])

            def insert_all(sorted_, rest):
                if not rest:
                    for j, (v, _) in enumerate(sorted_):
                        tset(s_.items[j], "v", v)
                    yield UNIT
                    return
                x = rest[0]

                def place(pos):
                    if pos == len(sorted_):
                        yield from insert_all(sorted_ + [x], rest[1:])
                        return
                    for i in ex.branches([x[1] < sorted_[pos][1], x[1] >= sorted_[pos][1]]):
                        if i == 0:
                            yield from insert_all(sorted_[:pos] + [x] + sorted_[pos:], rest[1:])
                        else:
                            yield from place(pos + 1)
                yield from place(0)
            for ks in keys_of(0, []):
                yield from insert_all([], list(zip(vals, ks)))

    @model(r"^(core|std)::slice::<impl \[.*\]>::(sort_by|sort_unstable_by|sort|sort_unstable)$", "slice sort with a comparison closure: insertion sort over the (concrete-length) sequence, each comparison forked")
    def slice_sort(ex, callee, args, rt):
        s_ = ex.deref(args[0])
        if "by_key" in callee:
            raise Unsupported("sort variant " + callee)
        cmpf = args[1] if len(args) >= 2 else None
        for n in seq_len_cases(ex, s_):
            vals = [ex.seq_item(s_, j).v for j in range(n)]

            def insert_all(sorted_, rest):
                if not rest:
                    for j, v in enumerate(sorted_):
                        tset(s_.items[j], "v", v)
                    yield UNIT
                    return
                x = rest[0]

                def place(pos):
                    # find the first position whose element is greater than x
                    if pos == len(sorted_):
                        yield from insert_all(sorted_ + [x], rest[1:])
                        return
                    if cmpf is None:
                        # natural order: integers only
                        y = sorted_[pos]
                        if not (is_z3(x) and is_z3(y) and z3.is_int(x) and z3.is_int(y)):
                            raise Unsupported("sort of non-integers without a comparison closure")
                        outcomes = (Adt("Ordering", ("Less", "Greater")[i], []) for i in ex.branches([x < y, x >= y]))
                    else:
                        outcomes = ex.call_closure(cmpf, [Ref(Cell(x)), Ref(Cell(sorted_[pos]))])
                    for o in outcomes:
                        if o.variant == "Less":
                            yield from insert_all(sorted_[:pos] + [x] + sorted_[pos:], rest[1:])
                        else:
                            yield from place(pos + 1)
                yield from place(0)
            yield from insert_all([], vals)

    @model(r"^(std::vec::)?Vec::(<.*>::)?dedup$", "Vec::dedup over integers (adjacent equal elements removed; comparisons forked)")
    def vec_dedup(ex, callee, args, rt):
        s_ = ex.deref(args[0])
        for n in seq_len_cases(ex, s_):
            vals = [ex.seq_item(s_, j).v for j in range(n)]
            if not all(is_z3(v) and z3.is_int(v) for v in vals):
                raise Unsupported("dedup of non-integers")

            def go(k, kept):
                if k == n:
                    for j, v in enumerate(kept):
                        tset(s_.items[j], "v", v)
                    tset(s_, "ln", len(kept))
                    yield UNIT
                    return
                if not kept:
                    yield from go(k + 1, [vals[k]])
                    return
                for i in ex.branches([vals[k] == kept[-1], vals[k] != kept[-1]]):
                    yield from go(k + 1, kept if i == 0 else kept + [vals[k]])
            yield from go(0, [])

    @model(r"^(core|std)::slice::<impl \[.*\]>::binary_search_by$", "slice::binary_search_by: std's algorithm on the concrete-length sequence (comparisons forked)")
    def slice_bsearch(ex, callee, args, rt):
        s_ = ex.deref(args[0])
        f = args[1]
        for n in seq_len_cases(ex, s_):
            def go(lo, hi):
                # std: size = hi - lo; while size > 1 { half = size / 2; mid = base + half; base = if cmp(mid) == Greater { base } else { mid }; size -= half }
                if lo >= hi:
                    yield Err(z3.IntVal(lo))
                    return
                def loop(base, size):
                    if size <= 1:
                        for o in ex.call_closure(f, [Ref(ex.seq_item(s_, base))]):
                            if o.variant == "Equal":
                                yield Ok(z3.IntVal(base))
                            elif o.variant == "Less":
                                yield Err(z3.IntVal(base + 1))
                            else:
                                yield Err(z3.IntVal(base))
                        return
                    half = size // 2
                    mid = base + half
                    for o in ex.call_closure(f, [Ref(ex.seq_item(s_, mid))]):
                        yield from loop(base if o.variant == "Greater" else mid, size - half)
                yield from loop(lo, hi - lo)
            yield from go(0, n)

    @model(r"^core::num::<impl u8>::(to_ascii_uppercase|to_ascii_lowercase|is_ascii_digit|is_ascii_alphabetic)$", "u8 ASCII helpers")
    def u8_ascii(ex, callee, args, rt):
        v = ex.deref(args[0])
        m = callee.rsplit("::", 1)[1]
        lower = z3.And(v >= 97, v <= 122)
        upper = z3.And(v >= 65, v <= 90)
        if m == "to_ascii_uppercase":
            yield z3.simplify(z3.If(lower, v - 32, v))
        elif m == "to_ascii_lowercase":
            yield z3.simplify(z3.If(upper, v + 32, v))
        elif m == "is_ascii_digit":
            yield z3.And(v >= 48, v <= 57)
        else:
            yield z3.Or(lower, upper)

    @model(r"^core::str::<impl str>::(chars|bytes)$|^(std::string::)?String::(chars|bytes)$", "str::chars / bytes over a literal or a character list")
    def str_chars(ex, callee, args, rt):
        sv = ex.deref(args[0])
        if isinstance(sv, CharStr):
            items = list(sv.chars)
        elif isinstance(sv, StrVal) and sv.concrete() is not None:
            items = [z3.IntVal(ord(ch)) for ch in sv.concrete()]
        else:
            raise Unsupported("chars() of a symbolic string")
        yield IterObj("seq", seq=new_seq(ex, items), pos=0, by_ref=False, mut=False)

    @model(r"^core::str::<impl str>::(len|is_empty)$|^(std::string::)?String::(len|is_empty)$", "str::len / is_empty on literals and character lists")
    def str_len(ex, callee, args, rt):
        sv = ex.deref(args[0])
        n = None
        if isinstance(sv, CharStr):
            # len() counts BYTES of the UTF-8 encoding
            total = z3.simplify(z3.Sum([utf8_len(c) for c in sv.chars])) if sv.chars else z3.IntVal(0)
            if callee.endswith("len"):
                yield total
            else:
                yield z3.BoolVal(len(sv.chars) == 0)
            return
        elif isinstance(sv, StrVal) and sv.concrete() is not None:
            n = len(sv.concrete().encode("utf-8"))
        if n is None:
            if isinstance(sv, StrVal):
                yield z3.Length(sv.t) if callee.endswith("len") else z3.Length(sv.t) == 0
                return
            raise Unsupported("str::len of %r" % (sv,))
        yield z3.IntVal(n) if callee.endswith("len") else z3.BoolVal(n == 0)

    @model(r"^core::num::<impl (i32|u32|i64|u64|usize)>::(checked_pow|pow)$", "integer pow / checked_pow with a small (<= 40) exponent, unrolled")
    def int_pow(ex, callee, args, rt):
        b, e = args[0], args[1]
        ty = re.search(r"<impl (\w+)>", callee).group(1)
        lo, hi = INT_RANGES[ty]
        checked = "checked_pow" in callee
        for k in ex.branches([e == i for i in range(0, 41)] + [e > 40]):
            if k == 41:
                raise Unsupported("pow with an exponent above 40")
            val = z3.IntVal(1)
            for _ in range(k):
                val = val * b
            fits = z3.And(val >= lo, val <= hi)
            # intermediate overflow = final overflow for |b| >= 2; for |b| <= 1 nothing overflows
            for i in ex.branches([fits, z3.Not(fits)]):
                if i == 0:
                    yield Some(val) if checked else val
                elif checked:
                    yield NONE
                else:
                    ex.panic("attempt to multiply with overflow (pow)", callee)

    def byte_split(ex, sv, k, callee):
        """fork: index i of the character boundary at byte offset k of a character list (panic when k is inside a character or
        beyond the end) - yields i"""
        sums = [z3.IntVal(0)]
        for c in sv.chars:
            sums.append(z3.simplify(sums[-1] + utf8_len(c)))
        conds = [k == x for x in sums]
        conds.append(z3.And(*[k != x for x in sums]))
        for i in ex.branches(conds):
            if i == len(sums):
                ex.panic("byte index is not a char boundary / out of range", callee)
            else:
                yield i

    @model(r"^core::str::<impl str>::split_at$", "str::split_at(k) on a character list: k is a BYTE offset and must be a character boundary (panic otherwise)")
    def str_split_at(ex, callee, args, rt):
        sv = ex.deref(args[0])
        if not isinstance(sv, CharStr):
            raise Unsupported("split_at of %r" % (sv,))
        for i in byte_split(ex, sv, args[1], callee):
            yield Tup([CharStr(sv.chars[:i]), CharStr(sv.chars[i:])])

    @model(r"^<(std::string::)?(String|str) as Index<(std::ops::|core::ops::)?(range::)?(RangeFrom|RangeTo|Range)<usize>>>::index$", "string slicing by byte offsets on a character list (panic off a character boundary)")
    def str_slice(ex, callee, args, rt):
        sv = ex.deref(args[0])
        if not isinstance(sv, CharStr):
            raise Unsupported("slicing of %r" % (sv,))
        rg = ex.deref(args[1])
        kind = re.search(r"(RangeFrom|RangeTo|Range)<usize>", callee).group(1)
        fields = rg.fields if isinstance(rg, Adt) else None
        if fields is None:
            raise Unsupported("range value %r" % (rg,))
        if kind == "RangeFrom":
            for i in byte_split(ex, sv, fields[0], callee):
                yield CharStr(sv.chars[i:])
        elif kind == "RangeTo":
            for i in byte_split(ex, sv, fields[0], callee):
                yield CharStr(sv.chars[:i])
        else:
            for i in byte_split(ex, sv, fields[0], callee):
                for j in byte_split(ex, sv, fields[1], callee):
                    if j < i:
                        ex.panic("slice index starts after its end", callee)
                    else:
                        yield CharStr(sv.chars[i:j])

    @model(r"^core::str::<impl str>::split_once$", "str::split_once(char) on a character list: at the first occurrence (one fork per position)")
    def str_split_once(ex, callee, args, rt):
        sv = ex.deref(args[0])
        pat = ex.deref(args[1])
        if not (isinstance(sv, CharStr) and is_z3(pat) and z3.is_int(pat)):
            raise Unsupported("split_once(%r, %r)" % (sv, pat))
        n = len(sv.chars)
        conds = [z3.And(sv.chars[i] == pat, *[sv.chars[j] != pat for j in range(i)]) for i in range(n)]
        conds.append(z3.And(*[c != pat for c in sv.chars]) if n else z3.BoolVal(True))
        for i in ex.branches(conds):
            if i == n:
                yield NONE
            else:
                yield Some(Tup([CharStr(sv.chars[:i]), CharStr(sv.chars[i + 1:])]))

    @model(r"^(std::string::)?String::truncate$", "String::truncate(n) on a character list: n counts bytes and must fall on a character boundary (panic otherwise)")
    def string_truncate(ex, callee, args, rt):
        r = args[0]
        cur = ex.load(r)
        while isinstance(cur, Ref):
            r = cur
            cur = ex.load(r)
        if not isinstance(cur, CharStr):
            raise Unsupported("truncate of %r" % (cur,))
        n = args[1]
        sums = [z3.IntVal(0)]
        for c in cur.chars:
            sums.append(z3.simplify(sums[-1] + utf8_len(c)))
        conds = [n >= sums[-1]] + [z3.And(n == sums[i], n < sums[-1]) for i in range(len(cur.chars))]
        conds.append(z3.And(n < sums[-1], *[n != x for x in sums[:-1]]))
        for i in ex.branches(conds):
            if i == 0:
                yield UNIT
            elif i <= len(cur.chars):
                ex.store(r, CharStr(cur.chars[:i - 1]))
                yield UNIT
            else:
                ex.panic("String::truncate: not on a character boundary", callee)

    @model(r"^core::num::<impl (u32|i32|u8|u16|u64|usize|i64)>::from_str_radix$", "from_str_radix on a character list (radix 10 and 16): digits only, value within range")
    def from_str_radix(ex, callee, args, rt):
        sv = ex.deref(args[0])
        radix = conc_int(args[1])
        ty = re.search(r"<impl (\w+)>", callee).group(1)
        if not isinstance(sv, CharStr) or radix not in (10, 16) or ty.startswith("i"):
            raise Unsupported("from_str_radix(%r, %r)" % (sv, radix))
        lo, hi = INT_RANGES[ty]
        if not sv.chars:
            yield Err(Opaque("ParseIntError", "empty"))
            return
        oks, val = [], z3.IntVal(0)
        for c in sv.chars:
            dec = z3.And(c >= 48, c <= 57)
            lw = z3.And(c >= 97, c <= 102)
            up = z3.And(c >= 65, c <= 70)
            oks.append(dec if radix == 10 else z3.Or(dec, lw, up))
            dv = c - 48 if radix == 10 else z3.If(dec, c - 48, z3.If(lw, c - 87, c - 55))
            val = val * radix + dv
        # a leading '+' is accepted by std; not modelled (the callers here strip their own prefixes)
        good = z3.And(*oks, val <= hi)
        for i in ex.branches([good, z3.Not(good)]):
            yield Ok(z3.simplify(val)) if i == 0 else Err(Opaque("ParseIntError", "invalid"))

    @model(r"^(core::)?char::(methods::<impl char>::)?from_u32$|^std::char::from_u32$|^char::from_u32$", "char::from_u32: None for surrogates and values above 0x10FFFF")
    def char_from_u32(ex, callee, args, rt):
        v = args[0]
        ok = z3.Or(z3.And(v >= 0, v <= 0xD7FF), z3.And(v >= 0xE000, v <= 0x10FFFF))
        for i in ex.branches([ok, z3.Not(ok)]):
            yield Some(v) if i == 0 else NONE

    @model(r"^(std::string::)?String::push$", "String::push(char): concatenation with the one-character string of that code point")
    def string_push(ex, callee, args, rt):
        r = args[0]
        cur = ex.load(r)
        while isinstance(cur, Ref):
            r = cur
            cur = ex.load(r)
        c = args[1]
        if isinstance(cur, CharStr):
            ex.store(r, CharStr(cur.chars + (c,)))
            yield UNIT
            return
        ch = z3.StrFromCode(c) if is_z3(c) else z3.StringVal(chr(c))
        cc = conc_int(c)
        if cc is not None:
            ch = z3.StringVal(chr(cc))
        ex.store(r, StrVal(z3.simplify(z3.Concat(cur.t, ch))))
        yield UNIT

    @model(r"^(std::string::)?String::push_str$", "String::push_str")
    def string_push_str(ex, callee, args, rt):
        r = args[0]
        cur = ex.load(r)
        while isinstance(cur, Ref):
            r = cur
            cur = ex.load(r)
        other = ex.deref(args[1])
        if isinstance(cur, CharStr):
            if isinstance(other, StrVal) and other.concrete() is not None:
                other = CharStr(tuple(z3.IntVal(ord(ch)) for ch in other.concrete()))
            if not isinstance(other, CharStr):
                raise Unsupported("push_str of %r onto a character list" % (other,))
            ex.store(r, CharStr(cur.chars + other.chars))
            yield UNIT
            return
        ex.store(r, StrVal(z3.simplify(z3.Concat(cur.t, other.t))))
        yield UNIT

    @model(r"^(std::string::)?String::clear$", "String::clear")
    def string_clear(ex, callee, args, rt):
        r = args[0]
        cur = ex.load(r)
        while isinstance(cur, Ref):
            r = cur
            cur = ex.load(r)
        ex.store(r, CharStr(()) if isinstance(cur, CharStr) else StrVal(""))
        yield UNIT

    @model(r"^core::str::<impl str>::parse$|^str::parse$", "str::parse::<i32|u32>: Ok(value) iff optional sign + one or more ASCII digits + in range (u32: no minus sign), else Err")
    def str_parse_int(ex, callee, args, rt):
        sv = ex.deref(args[0])
        tail = callee.rsplit("parse", 1)[1]
        if isinstance(sv, CharStr):
            yield from parse_charstr(ex, sv, tail)
            return
        if "f64" in tail or "f32" in tail:
            yield from str_parse_f64(ex, callee, args, rt)
            return
        if "i32" not in tail and "u32" not in tail:
            raise NoModel()
        ty = "i32" if "i32" in tail else "u32"
        lo, hi = INT_RANGES[ty]
        t = sv.t
        first = z3.SubString(t, 0, 1)
        plus = first == z3.StringVal("+")
        minus = first == z3.StringVal("-") if ty == "i32" else z3.BoolVal(False)
        body = z3.If(z3.Or(plus, minus), z3.SubString(t, 1, z3.Length(t) - 1), t)
        mag = z3.StrToInt(body)                      # -1 unless body is a non-empty string of decimal digits
        val = z3.If(minus, -mag, mag)
        ok = z3.And(mag >= 0, val >= lo, val <= hi)
        for i in ex.branches([ok, z3.Not(ok)]):
            if i == 0:
                v = ex.fresh_int("parsed", ty)
                ex.ctx.add(v == val)
                yield Ok(v)
            else:
                yield Err(Opaque("ParseIntError", "parse error"))

    @model(r"^core::str::<impl str>::parse_f64_never_matches$", "str::parse::<f64>: acceptance by Rust's float grammar (decimal digits with optional sign, point, exponent; inf/nan spellings not produced by the lexer), value uninterpreted")
    def str_parse_f64(ex, callee, args, rt):
        sv = ex.deref(args[0])
        d = z3.Range("0", "9")
        digits1 = z3.Plus(d)
        sign = z3.Option(z3.Union(z3.Re("+"), z3.Re("-")))
        mant = z3.Union(z3.Concat(digits1, z3.Option(z3.Concat(z3.Re("."), z3.Star(d)))), z3.Concat(z3.Re("."), digits1))
        expo = z3.Option(z3.Concat(z3.Union(z3.Re("e"), z3.Re("E")), sign, digits1))
        gram = z3.Concat(sign, mant, expo)
        ok = z3.InRe(sv.t, gram)
        for i in ex.branches([ok, z3.Not(ok)]):
            if i == 0:
                f = z3.Function("parse_f64", z3.StringSort(), z3.Float64())
                yield Ok(f(sv.t))
            else:
                yield Err(Opaque("ParseFloatError", "parse error"))

    def parse_charstr(ex, sv, tail):
        cs = sv.chars
        is_digit = lambda c: z3.And(c >= 48, c <= 57)
        if "f64" in tail or "f32" in tail:
            ok = float_grammar(cs)
            for i in ex.branches([ok, z3.Not(ok)]):
                if i == 0:
                    yield Ok(z3.FP(ex.fresh_name("parsed_f64"), z3.Float64()))
                else:
                    yield Err(Opaque("ParseFloatError", "parse error"))
            return
        ty = "i32" if "i32" in tail else ("u32" if "u32" in tail else None)
        if ty is None:
            raise NoModel()
        lo, hi = INT_RANGES[ty]
        n = len(cs)
        alts = []

        def value(ds):
            v = z3.IntVal(0)
            for d in ds:
                v = v * 10 + (d - 48)
            return v
        if n >= 1:
            alts.append((z3.And(*[is_digit(c) for c in cs]), value(cs)))
        if n >= 2:
            alts.append((z3.And(cs[0] == 43, *[is_digit(c) for c in cs[1:]]), value(cs[1:])))
            if ty == "i32":
                alts.append((z3.And(cs[0] == 45, *[is_digit(c) for c in cs[1:]]), -value(cs[1:])))
        conds = [z3.And(c, v >= lo, v <= hi) for c, v in alts]
        bad = z3.Not(z3.Or(*conds)) if conds else z3.BoolVal(True)
        for i in ex.branches(conds + [bad]):
            if i < len(conds):
                yield Ok(alts[i][1])
            else:
                yield Err(Opaque("ParseIntError", "parse error"))

    def float_grammar(cs):
        """z3 Bool: the character list is accepted by Rust's f64::from_str decimal grammar
        [sign] (digits [. digits*] | . digits) [(e|E) [sign] digits]  -- decided by a small symbolic automaton"""
        is_digit = lambda c: z3.And(c >= 48, c <= 57)
        cur = [(0, z3.BoolVal(True), z3.BoolVal(False))]      # (state, condition, mantissa has a digit)
        for c in cs:
            nxt = {}

            def add(st, cond, has):
                if st in nxt:
                    nxt[st] = (z3.Or(nxt[st][0], cond), z3.If(cond, has, nxt[st][1]))
                else:
                    nxt[st] = (cond, has)
            for st, cond, has in cur:
                d = is_digit(c)
                sign = z3.Or(c == 43, c == 45)
                if st == 0:
                    add(1, z3.And(cond, sign), has)
                    add(2, z3.And(cond, d), z3.BoolVal(True))
                    add(3, z3.And(cond, c == 46), has)
                elif st == 1:
                    add(2, z3.And(cond, d), z3.BoolVal(True))
                    add(3, z3.And(cond, c == 46), has)
                elif st == 2:
                    add(2, z3.And(cond, d), z3.BoolVal(True))
                    add(4, z3.And(cond, c == 46), has)
                    add(5, z3.And(cond, z3.Or(c == 101, c == 69)), has)
                elif st == 3:
                    add(4, z3.And(cond, d), z3.BoolVal(True))
                elif st == 4:
                    add(4, z3.And(cond, d), z3.BoolVal(True))
                    add(5, z3.And(cond, has, z3.Or(c == 101, c == 69)), has)
                elif st == 5:
                    add(6, z3.And(cond, sign), has)
                    add(7, z3.And(cond, d), has)
                elif st == 6:
                    add(7, z3.And(cond, d), has)
                elif st == 7:
                    add(7, z3.And(cond, d), has)
            cur = [(st, c_, h_) for st, (c_, h_) in nxt.items()]
        acc = [z3.And(cond, has) for st, cond, has in cur if st in (2, 4, 7)]
        return z3.Or(*acc) if acc else z3.BoolVal(False)

    @model(r"^<(std::option::)?Option<(&(mut )?)*(std::string::)?(String|str)> as PartialEq>::(eq|ne)$", "Option<String> / Option<&String> equality")
    def option_str_eq(ex, callee, args, rt):
        a, b = ex.deref(args[0]), ex.deref(args[1])
        neg = callee.endswith("ne")
        for va in enum_branch(ex, a, ["Some", "None"]):
            for vb in enum_branch(ex, b, ["Some", "None"]):
                if va != vb:
                    r = z3.BoolVal(False)
                elif va == "None":
                    r = z3.BoolVal(True)
                else:
                    r = str_eq(ex, variant_field(ex, a, "Some", 0), variant_field(ex, b, "Some", 0))
                yield z3.Not(r) if neg else r

    @model(r"^<(std::option::)?Option<(&(mut )?)*(char|i32|u32|usize|bool|u8)> as PartialEq>::(eq|ne)$", "Option<scalar> / Option<&scalar> equality")
    def option_eq(ex, callee, args, rt):
        a, b = ex.deref(args[0]), ex.deref(args[1])
        neg = callee.endswith("ne")
        for va in enum_branch(ex, a, ["Some", "None"]):
            for vb in enum_branch(ex, b, ["Some", "None"]):
                if va != vb:
                    r = z3.BoolVal(False)
                elif va == "None":
                    r = z3.BoolVal(True)
                else:
                    r = ex.deref(variant_field(ex, a, "Some", 0)) == ex.deref(variant_field(ex, b, "Some", 0))
                yield z3.Not(r) if neg else r

    @model(r"^<(std::option::)?Option<(std::cmp::|core::cmp::)?Ordering> as PartialEq>::(eq|ne)$|^<(std::cmp::|core::cmp::)?Ordering as PartialEq>::(eq|ne)$", "equality of (optional) orderings")
    def option_ordering_eq(ex, callee, args, rt):
        a, b = ex.deref(args[0]), ex.deref(args[1])
        neg = callee.endswith("ne")

        def shapes(v):
            if isinstance(v, Adt) and v.ty == "Ordering":
                yield v.variant
                return
            if isinstance(v, Adt) and v.ty == "Option":
                if v.variant == "None":
                    yield None
                else:
                    yield from shapes(ex.deref(v.fields[0]))
                return
            if isinstance(v, Lazy):
                names = ENUMS.get(base_ty(v.ty)) or (["None", "Some"] if base_ty(v.ty) == "Option" else ["Less", "Equal", "Greater"])
                for nm in enum_branch(ex, v, names):
                    if nm == "None":
                        yield None
                    elif nm == "Some":
                        yield from shapes(ex.deref(variant_field(ex, v, "Some", 0)))
                    else:
                        yield nm
                return
            raise Unsupported("ordering operand %r" % (v,))

        for sa in shapes(a):
            for sb in shapes(b):
                r = sa == sb
                yield z3.BoolVal(r != neg)

    @model(r"^(std::string::)?String::new$", "String::new")
    def string_new(ex, callee, args, rt):
        yield CharStr(()) if getattr(ex, "string_mode", "") == "chars" else StrVal("")

    # ---------------------------------------------------------------- Vec / SmallVec / slices
    @model(r"^(std::vec::)?Vec::(<.*>::)?(new|with_capacity)$|^(smallvec::)?SmallVec::(<.*>::)?(new|with_capacity)$", "Vec::new / SmallVec::new")
    def vec_new(ex, callee, args, rt):
        yield SeqObj(ex.fresh_name("vec"), "?", [Cell(None) for _ in range(ex.seq_max + 2)], 0, ex.seq_max + 2)

    @model(r"^(std::vec::)?Vec::(<.*>::)?len$|^(smallvec::)?SmallVec::(<.*>::)?len$|^core::slice::<impl \[.*\]>::len$|^<\[.*\]>::len$", "len")
    def vec_len(ex, callee, args, rt):
        s = ex.deref(args[0])
        if isinstance(s, SeqObj):
            yield zint(s.ln)
        else:
            raise NoModel()

    @model(r"^(std::vec::)?Vec::(<.*>::)?is_empty$|^(smallvec::)?SmallVec::(<.*>::)?is_empty$|^core::slice::<impl \[.*\]>::is_empty$", "is_empty")
    def vec_is_empty(ex, callee, args, rt):
        s = ex.deref(args[0])
        yield zint(s.ln) == 0

    @model(r"^(std::vec::)?Vec::(<.*>::)?push$|^(smallvec::)?SmallVec::(<.*>::)?push$", "push")
    def vec_push(ex, callee, args, rt):
        s = ex.deref(args[0])
        for n in seq_len_cases(ex, s):
            if n >= s.max:
                grow_seq(ex, s)
            tset(s.items[n], "v", args[1])
            tset(s, "ln", n + 1)
            yield UNIT

    @model(r"^(std::vec::)?Vec::(<.*>::)?(insert|remove)$|^(smallvec::)?SmallVec::(<.*>::)?(insert|remove)$", "Vec/SmallVec insert(i, x) / remove(i) with a concrete index")
    def vec_insert(ex, callee, args, rt):
        s = ex.deref(args[0])
        idx = conc_int(args[1])
        op = strip_turbofish(callee).rsplit("::", 1)[1]
        if idx is None:
            raise Unsupported("Vec::%s with a symbolic index" % op)
        for n in seq_len_cases(ex, s):
            if op == "insert":
                if idx > n:
                    ex.panic("insertion index out of bounds", callee)
                    continue
                if n >= s.max:
                    grow_seq(ex, s)
                vals = [ex.seq_item(s, j).v for j in range(n)]
                vals.insert(idx, args[2])
                for j, v in enumerate(vals):
                    tset(s.items[j], "v", v)
                tset(s, "ln", n + 1)
                yield UNIT
            else:
                if idx >= n:
                    ex.panic("removal index out of bounds", callee)
                    continue
                vals = [ex.seq_item(s, j).v for j in range(n)]
                x = vals.pop(idx)
                for j, v in enumerate(vals):
                    tset(s.items[j], "v", v)
                tset(s, "ln", n - 1)
                yield x

    @model(r"^(std::vec::)?Vec::(<.*>::)?pop$|^(smallvec::)?SmallVec::(<.*>::)?pop$", "pop")
    def vec_pop(ex, callee, args, rt):
        s = ex.deref(args[0])
        for n in seq_len_cases(ex, s):
            if n == 0:
                yield NONE
            else:
                tset(s, "ln", n - 1)
                yield Some(ex.seq_item(s, n - 1).v)

    @model(r"^core::slice::<impl \[.*\]>::(get|get_mut)$|^(std::vec::)?Vec::(<.*>::)?(get|get_mut)$", "slice::get / get_mut with symbolic index")
    def slice_get(ex, callee, args, rt):
        s = ex.deref(args[0])
        k = args[1]
        if not isinstance(s, SeqObj):
            raise NoModel()
        for i in seq_index_cases(ex, s, k):
            yield NONE if i is None else Some(Ref(ex.seq_item(s, i)))

    @model(r"^<(std::vec::)?Vec<.*> as (Index|IndexMut)<usize>>::(index|index_mut)$|^<\[.*\] as (Index|IndexMut)<usize>>::(index|index_mut)$|^<(smallvec::)?SmallVec<.*> as (Index|IndexMut)<usize>>::(index|index_mut)$", "v[i] with a symbolic index (out of range = panic)")
    def vec_index(ex, callee, args, rt):
        s = ex.deref(args[0])
        if not isinstance(s, SeqObj):
            raise NoModel()
        for i in seq_index_cases(ex, s, args[1]):
            if i is None:
                ex.panic("index out of bounds", callee)
            else:
                yield Ref(ex.seq_item(s, i))

    @model(r"^core::slice::<impl \[.*\]>::(first|last)$", "slice::first/last")
    def slice_first(ex, callee, args, rt):
        s = ex.deref(args[0])
        last = callee.endswith("last")
        for n in seq_len_cases(ex, s):
            if n == 0:
                yield NONE
            else:
                yield Some(Ref(ex.seq_item(s, n - 1 if last else 0)))

    @model(r"^core::slice::<impl \[.*\]>::split_last$", "slice::split_last")
    def split_last(ex, callee, args, rt):
        s = ex.deref(args[0])
        for n in seq_len_cases(ex, s):
            if n == 0:
                yield NONE
            else:
                rest = SeqObj(s.name + "[..last]", s.elem_ty, s.items, n - 1, s.max)
                rest.meta = s.meta
                yield Some(Tup([Ref(ex.seq_item(s, n - 1)), rest]))

    @model(r"^core::slice::<impl \[.*\]>::split_first$", "slice::split_first")
    def split_first(ex, callee, args, rt):
        s = ex.deref(args[0])
        for n in seq_len_cases(ex, s):
            if n == 0:
                yield NONE
            else:
                for i in range(n):
                    ex.seq_item(s, i)
                rest = SeqObj(s.name + "[1..]", s.elem_ty, s.items[1:] + [Cell(None)], n - 1, s.max)
                yield Some(Tup([Ref(s.items[0]), rest]))

    @model(r"^core::slice::<impl \[.*\]>::(iter|iter_mut)$|^(std::vec::)?Vec::(<.*>::)?(iter|iter_mut)$|^(smallvec::)?SmallVec::(<.*>::)?(iter|iter_mut)$", "slice::iter / iter_mut")
    def slice_iter(ex, callee, args, rt):
        yield make_iter(ex, args[0], True)

    @model(r"^core::slice::<impl \[.*\]>::into_vec$|^slice::<impl \[.*\]>::into_vec$|^<\[.*\]>::into_vec$|^std::slice::<impl \[.*\]>::into_vec$", "<[T]>::into_vec (vec! literal)")
    def into_vec(ex, callee, args, rt):
        yield ex.deref(args[0])

    @model(r"^(std::vec::)?from_elem$|^std::vec::from_elem$|^alloc::vec::from_elem$", "vec![x; n]: symbolic length up to the modelled capacity; beyond it the run is inconclusive")
    def from_elem(ex, callee, args, rt):
        x, n = args
        nc = conc_int(n)
        cap = getattr(ex, "from_elem_max", ex.seq_max)
        m = re.search(r"from_elem::<(.*)>$", callee.strip())
        elem_ty = m.group(1) if m else None

        def build(count):
            """std's from_elem: count-1 clones followed by the value itself"""
            def rec(acc):
                if len(acc) >= count - 1 or count == 0:
                    yield list(acc) + ([x] if count > 0 else [])
                    return
                if elem_ty is None:
                    yield from rec(acc + [x])
                    return
                for c in ex.call("<%s as Clone>::clone" % elem_ty, [Ref(Cell(x))], elem_ty, 1):
                    yield from rec(acc + [c])
            yield from rec([])

        if nc is not None:
            for items in build(nc):
                yield new_seq(ex, items)
            return
        conds = [n == k for k in range(cap + 1)] + [n > cap]
        for i in ex.branches(conds):
            if i <= cap:
                for items in build(i):
                    yield new_seq(ex, items, maxlen=cap)
            else:
                hook = getattr(ex, "from_elem_overflow", None)
                if hook:
                    hook(ex, n)
                else:
                    raise Unsupported("vec![x; n] with n beyond the modelled capacity %d" % cap)

    @model(r"^<(std::vec::)?Vec<.*> as Extend<.*>>::extend$|^<(smallvec::)?SmallVec<.*> as Extend<.*>>::extend$", "Extend for Vec/SmallVec")
    def vec_extend(ex, callee, args, rt):
        s = ex.deref(args[0])
        it = make_iter(ex, args[1], False)
        for items in drain(ex, it):
            def rec(j):
                if j == len(items):
                    yield UNIT
                    return
                for _ in vec_push(ex, "Vec::push", [s, items[j]], "()"):
                    yield from rec(j + 1)
            yield from rec(0)

    # ---------------------------------------------------------------- iterators
    @model(r"as IntoIterator>::into_iter$", "IntoIterator::into_iter over modelled containers")
    def into_iter(ex, callee, args, rt):
        st = self_type(callee)
        by_ref = st.startswith("&")
        v = ex.deref(args[0])
        if isinstance(v, IterObj):
            yield v
            return
        yield make_iter(ex, args[0], by_ref)

    @model(r"as Iterator>::next$", "Iterator::next over modelled iterators")
    def it_next(ex, callee, args, rt):
        yield from iter_next(ex, args[0])

    @model(r"as Iterator>::map$", "Iterator::map (lazy adaptor; closure = crate MIR)")
    def it_map(ex, callee, args, rt):
        yield IterObj("mapf", inner=make_iter(ex, args[0], False), f=args[1])

    @model(r"as Iterator>::(cloned|copied)$", "Iterator::cloned / copied: the same items (Clone = identity on immutable data)")
    def it_cloned(ex, callee, args, rt):
        inner = make_iter(ex, args[0], False)
        yield IterObj("mapf_deref", inner=inner)

    @model(r"as Iterator>::filter_map$", "Iterator::filter_map")
    def it_filter_map(ex, callee, args, rt):
        inner = make_iter(ex, args[0], False)
        f = args[1]

        def nxt(ex_, it_):
            for o in iter_next(ex_, inner):
                if o.variant == "None":
                    yield NONE
                    continue
                for r in ex_.call_closure(f, [o.fields[0]]):
                    for v in enum_branch(ex_, r, ["Some", "None"]):
                        if v == "Some":
                            yield Some(variant_field(ex_, r, "Some", 0))
                        else:
                            yield from nxt(ex_, it_)
        yield IterObj("custom", next=nxt)

    @model(r"as (itertools::)?Itertools>::flatten_ok(::<.*>)?$", "Itertools::flatten_ok: Ok(collection) is flattened into Ok(item)s, Err(e) is passed on")
    def it_flatten_ok(ex, callee, args, rt):
        inner = make_iter(ex, args[0], False)
        state = IterObj("custom", next=None)
        state.cur = None

        def nxt(ex_, it_):
            if state.cur is not None:
                for o in iter_next(ex_, state.cur):
                    if o.variant == "Some":
                        yield Some(Ok(o.fields[0]))
                    else:
                        tset(state, "cur", None)
                        yield from nxt(ex_, it_)
                return
            for o in iter_next(ex_, inner):
                if o.variant == "None":
                    yield NONE
                    continue
                r = o.fields[0]
                for v in enum_branch(ex_, r, ["Ok", "Err"]):
                    if v == "Err":
                        yield Some(Err(variant_field(ex_, r, "Err", 0)))
                    else:
                        tset(state, "cur", make_iter(ex_, variant_field(ex_, r, "Ok", 0), False))
                        yield from nxt(ex_, it_)
        state.next = nxt
        yield state

    @model(r"as Iterator>::(max|min)$", "Iterator::max / min over integers")
    def it_max(ex, callee, args, rt):
        it = make_iter(ex, args[0], False)
        want_max = callee.endswith("max")
        for items in drain(ex, it):
            if not items:
                yield NONE
                continue
            vals = [ex.deref(v) if not is_z3(v) else v for v in items]
            if not all(is_z3(v) and z3.is_int(v) for v in vals):
                raise Unsupported("max/min of non-integers")
            acc = vals[0]
            for v in vals[1:]:
                # std: max returns the last of equal maxima, min the first; irrelevant for integers
                acc = z3.If(v >= acc, v, acc) if want_max else z3.If(v < acc, v, acc)
            yield Some(z3.simplify(acc))

    @model(r"as Iterator>::flat_map(::<.*>)?$", "Iterator::flat_map: the closure's result is iterated to its end before the next outer item is taken")
    def it_flat_map(ex, callee, args, rt):
        outer = make_iter(ex, args[0], False) if not isinstance(ex.deref(args[0]), IterObj) else args[0]
        f = args[1]
        state = IterObj("custom", next=None)
        state.cur = None

        def nxt(ex_, it_):
            if state.cur is not None:
                for o in iter_next(ex_, state.cur):
                    if o.variant == "Some":
                        yield o
                    else:
                        tset(state, "cur", None)
                        yield from nxt(ex_, it_)
                return
            for o in iter_next(ex_, outer):
                if o.variant == "None":
                    yield NONE
                    continue
                for r in ex_.call_closure(f, [o.fields[0]]):
                    tset(state, "cur", make_iter(ex_, r, False) if not isinstance(ex_.deref(r), IterObj) else r)
                    yield from nxt(ex_, it_)
        state.next = nxt
        yield state

    @model(r"as Iterator>::map_while(::<.*>)?$", "Iterator::map_while: ends at the first item the closure maps to None")
    def it_map_while(ex, callee, args, rt):
        inner = make_iter(ex, args[0], False) if not isinstance(ex.deref(args[0]), IterObj) else args[0]
        f = args[1]
        state = IterObj("custom", next=None)
        state.done = False

        def nxt(ex_, it_):
            if state.done:
                yield NONE
                return
            for o in iter_next(ex_, inner):
                if o.variant == "None":
                    yield NONE
                    continue
                for r in ex_.call_closure(f, [o.fields[0]]):
                    for v in enum_branch(ex_, r, ["Some", "None"]):
                        if v == "Some":
                            yield Some(variant_field(ex_, r, "Some", 0))
                        else:
                            tset(state, "done", True)
                            yield NONE
        state.next = nxt
        yield state

    @model(r"^(std|core)::iter::once(::<.*>)?$|^once(::<.*>)?$", "iter::once")
    def it_once(ex, callee, args, rt):
        yield IterObj("seq", seq=new_seq(ex, [args[0]]), pos=0, by_ref=False, mut=False)

    @model(r"as Iterator>::nth$", "Iterator::nth(n) for a concrete n: n items are skipped, the next one returned")
    def it_nth(ex, callee, args, rt):
        it = make_iter(ex, args[0], False) if not isinstance(ex.deref(args[0]), IterObj) else args[0]
        n = conc_int(args[1])
        if n is None:
            raise Unsupported("nth with a symbolic index")

        def go(k):
            for o in iter_next(ex, it):
                if o.variant == "None" or k == 0:
                    yield o
                else:
                    yield from go(k - 1)
        yield from go(n)

    @model(r"as Iterator>::flatten(::<.*>)?$", "Iterator::flatten: Option / Result items contribute their payload (None / Err contribute nothing), collections their elements")
    def it_flatten(ex, callee, args, rt):
        outer = make_iter(ex, args[0], False) if not isinstance(ex.deref(args[0]), IterObj) else args[0]
        state = IterObj("custom", next=None)
        state.cur = None

        def nxt(ex_, it_):
            if state.cur is not None:
                for o in iter_next(ex_, state.cur):
                    if o.variant == "Some":
                        yield o
                    else:
                        tset(state, "cur", None)
                        yield from nxt(ex_, it_)
                return
            for o in iter_next(ex_, outer):
                if o.variant == "None":
                    yield NONE
                    continue
                x = ex_.deref(o.fields[0])
                if isinstance(x, (SeqObj, IterObj, MapObj)):
                    tset(state, "cur", make_iter(ex_, x, False) if not isinstance(x, IterObj) else x)
                    yield from nxt(ex_, it_)
                    continue
                names = ["Ok", "Err"] if (isinstance(x, Adt) and x.ty == "Result") or (isinstance(x, Lazy) and base_ty(x.ty) == "Result") else ["Some", "None"]
                for v in enum_branch(ex_, x, names):
                    if v in ("Ok", "Some"):
                        yield Some(variant_field(ex_, x, v, 0))
                    else:
                        yield from nxt(ex_, it_)
        state.next = nxt
        yield state

    @model(r"as Iterator>::take_while(::<.*>)?$", "Iterator::take_while: ends at (and consumes) the first item the predicate rejects")
    def it_take_while(ex, callee, args, rt):
        inner = make_iter(ex, args[0], False) if not isinstance(ex.deref(args[0]), IterObj) else args[0]
        f = args[1]
        state = IterObj("custom", next=None)
        state.done = False

        def nxt(ex_, it_):
            if state.done:
                yield NONE
                return
            for o in iter_next(ex_, inner):
                if o.variant == "None":
                    yield NONE
                    continue
                x = o.fields[0]
                for keep in ex_.call_closure(f, [Ref(Cell(x))]):
                    for b in ex_.branches([keep, z3.Not(keep)]):
                        if b == 0:
                            yield Some(x)
                        else:
                            tset(state, "done", True)
                            yield NONE
        state.next = nxt
        yield state

    @model(r"as Iterator>::zip(::<.*>)?$", "Iterator::zip: pairs until either side ends (the left side is advanced first, as in std)")
    def it_zip(ex, callee, args, rt):
        a = make_iter(ex, args[0], False) if not isinstance(ex.deref(args[0]), IterObj) else args[0]
        b = make_iter(ex, args[1], False) if not isinstance(ex.deref(args[1]), IterObj) else args[1]

        def nxt(ex_, it_):
            for x in iter_next(ex_, a):
                if x.variant == "None":
                    yield NONE
                    continue
                for y in iter_next(ex_, b):
                    if y.variant == "None":
                        yield NONE
                    else:
                        yield Some(Tup([x.fields[0], y.fields[0]]))
        yield IterObj("custom", next=nxt)

    @model(r"as Iterator>::by_ref$", "Iterator::by_ref: the iterator itself")
    def it_by_ref(ex, callee, args, rt):
        yield args[0]

    @model(r"as Iterator>::partition$", "Iterator::partition into two Vecs")
    def it_partition(ex, callee, args, rt):
        it = make_iter(ex, args[0], False)
        f = args[1]
        for items in drain(ex, it):
            def rec(j, left, right):
                if j == len(items):
                    yield Tup([new_seq(ex, list(left), maxlen=len(items) + 2), new_seq(ex, list(right), maxlen=len(items) + 2)])
                    return
                for keep in ex.call_closure(f, [Ref(Cell(items[j]))]):
                    for b in ex.branches([keep, z3.Not(keep)]):
                        if b == 0:
                            yield from rec(j + 1, left + (items[j],), right)
                        else:
                            yield from rec(j + 1, left, right + (items[j],))
            yield from rec(0, (), ())

    @model(r"as Iterator>::(find|position)$", "Iterator::find / position")
    def it_find(ex, callee, args, rt):
        it = make_iter(ex, args[0], False)
        f = args[1]
        want_pos = callee.endswith("position")

        def loop(k):
            for o in iter_next(ex, it):
                if o.variant == "None":
                    yield NONE
                else:
                    x = o.fields[0]
                    for r in ex.call_closure(f, [x if want_pos else Ref(Cell(x))]):
                        for b in ex.branches([r, z3.Not(r)]):
                            if b == 0:
                                yield Some(z3.IntVal(k) if want_pos else x)
                            else:
                                yield from loop(k + 1)
        yield from loop(0)

    @model(r"as Iterator>::filter$", "Iterator::filter")
    def it_filter(ex, callee, args, rt):
        yield IterObj("filter", inner=make_iter(ex, args[0], False), f=args[1])

    @model(r"as Iterator>::skip$", "Iterator::skip (concrete n)")
    def it_skip(ex, callee, args, rt):
        n = conc_int(args[1])
        if n is None:
            raise Unsupported("skip(symbolic)")
        yield IterObj("skip", inner=make_iter(ex, args[0], False), n=n)

    @model(r"as Iterator>::enumerate$", "Iterator::enumerate")
    def it_enumerate(ex, callee, args, rt):
        yield IterObj("enumerate", inner=make_iter(ex, args[0], False), count=0)

    @model(r"as Iterator>::chain$", "Iterator::chain")
    def it_chain(ex, callee, args, rt):
        yield IterObj("chain", a=make_iter(ex, args[0], False), b=make_iter(ex, args[1], False), first_done=False)

    @model(r"as Iterator>::peekable$", "Iterator::peekable")
    def it_peekable(ex, callee, args, rt):
        yield IterObj("peekable", inner=make_iter(ex, args[0], False), peeked=None)

    @model(r"^(std::iter::)?Peekable::(<.*>::)?peek$", "Peekable::peek")
    def it_peek(ex, callee, args, rt):
        it = ex.deref(args[0])
        if it.peeked is None:
            for o in iter_next(ex, it.inner):
                tset(it, "peeked", o)
                yield Some(Ref(Cell(o.fields[0]))) if o.variant == "Some" else NONE
        else:
            o = it.peeked
            yield Some(Ref(Cell(o.fields[0]))) if o.variant == "Some" else NONE

    @model(r"as Iterator>::try_fold$", "Iterator::try_fold (Result accumulator; closure = crate MIR)")
    def it_try_fold(ex, callee, args, rt):
        it, init, f = args
        is_result = base_ty(rt) == "Result"
        if not is_result:
            raise Unsupported("try_fold with non-Result accumulator type " + rt)

        def loop(acc):
            for o in iter_next(ex, it):
                if o.variant == "None":
                    yield Ok(acc)
                else:
                    for r in ex.call_closure(f, [acc, o.fields[0]]):
                        for v in enum_branch(ex, r, ["Ok", "Err"]):
                            if v == "Ok":
                                yield from loop(variant_field(ex, r, "Ok", 0))
                            else:
                                yield Err(variant_field(ex, r, "Err", 0))
        yield from loop(init)

    @model(r"as Iterator>::try_for_each(::<.*>)?$", "Iterator::try_for_each (Result-returning closure): stops at the first Err")
    def it_try_for_each(ex, callee, args, rt):
        it, f = args
        it = make_iter(ex, it, False) if not isinstance(ex.deref(it), IterObj) else it

        def loop():
            for o in iter_next(ex, it):
                if o.variant == "None":
                    yield Ok(UNIT)
                else:
                    for r in ex.call_closure(f, [o.fields[0]]):
                        for v in enum_branch(ex, r, ["Ok", "Err"]):
                            if v == "Ok":
                                yield from loop()
                            else:
                                yield Err(variant_field(ex, r, "Err", 0))
        yield from loop()

    @model(r"as Iterator>::fold$", "Iterator::fold")
    def it_fold(ex, callee, args, rt):
        it, init, f = args
        it = make_iter(ex, it, False)

        def loop(acc):
            for o in iter_next(ex, it):
                if o.variant == "None":
                    yield acc
                else:
                    for r in ex.call_closure(f, [acc, o.fields[0]]):
                        yield from loop(r)
        yield from loop(init)

    @model(r"as Iterator>::for_each$", "Iterator::for_each")
    def it_for_each(ex, callee, args, rt):
        it, f = args
        it = make_iter(ex, it, False)

        def loop():
            for o in iter_next(ex, it):
                if o.variant == "None":
                    yield UNIT
                else:
                    for _ in ex.call_closure(f, [o.fields[0]]):
                        yield from loop()
        yield from loop()

    @model(r"as Iterator>::(all|any)$", "Iterator::all/any")
    def it_all(ex, callee, args, rt):
        it, f = args
        it = make_iter(ex, it, False)
        is_all = callee.endswith("all")

        def loop():
            for o in iter_next(ex, it):
                if o.variant == "None":
                    yield z3.BoolVal(is_all)
                else:
                    for r in ex.call_closure(f, [o.fields[0]]):
                        for b in ex.branches([r, z3.Not(r)]):
                            if (b == 0) == is_all:
                                yield from loop()
                            else:
                                yield z3.BoolVal(not is_all)
        yield from loop()

    @model(r"as Iterator>::count$", "Iterator::count")
    def it_count(ex, callee, args, rt):
        for items in drain(ex, make_iter(ex, args[0], False)):
            yield z3.IntVal(len(items))

    @model(r"as Iterator>::collect$|as FromIterator<.*>>::from_iter$", "Iterator::collect / FromIterator for Vec, SmallVec, HashMap, HashSet, Result<_,_>; crate types run their own from_iter MIR")
    def it_collect(ex, callee, args, rt):
        if callee.endswith("from_iter"):
            target = self_type(callee)
        else:
            target = rt
        yield from collect_into(ex, args[0], target)

    def collect_into(ex, src, target):
        b = base_ty(target)
        if b == "Result":
            ok_ty = generic_args(target)[0]
            it = make_iter(ex, src, False)

            def loop(acc):
                for o in iter_next(ex, it):
                    if o.variant == "None":
                        for coll in collect_into(ex, new_seq(ex, list(acc)), ok_ty):
                            yield Ok(coll)
                    else:
                        r = o.fields[0]
                        for v in enum_branch(ex, r, ["Ok", "Err"]):
                            if v == "Ok":
                                yield from loop(acc + (variant_field(ex, r, "Ok", 0),))
                            else:
                                yield Err(variant_field(ex, r, "Err", 0))
            yield from loop(())
            return
        if b in ("Vec", "SmallVec", "VecDeque") or b == "ArgVec" or target.strip() == "_":
            it = make_iter(ex, src, False)
            for items in drain(ex, it):
                yield new_seq(ex, list(items), maxlen=max(len(items), ex.seq_max) + 2)
            return
        if b in ("HashMap", "HashSet", "BTreeMap", "BTreeSet"):
            it = make_iter(ex, src, False)
            for items in drain(ex, it):
                m = MapObj(ex.fresh_name("coll"), is_set=b.endswith("Set"))

                def rec(j):
                    if j == len(items):
                        yield m
                        return
                    x = items[j]
                    if m.is_set:
                        k, v = x, UNIT
                    else:
                        k, v = x.items
                    for _ in map_insert(ex, m, k, v):
                        yield from rec(j + 1)
                yield from rec(0)
            return
        if b == "String":
            yield fresh_str(ex, "collected")
            return
        # crate type: its own FromIterator impl
        f = None
        for name, lst in ex.fns.items():
            if name.endswith("::from_iter") and "<impl at" in name:
                ii = ex.impl_info(name)
                if ii and ii[0] == b and ii[1] == "FromIterator":
                    f = lst[0]
        if f is None:
            raise Unsupported("collect into " + target)
        inames, ipat = ex.impl_generics(f)
        if inames and ipat:
            binds = {}
            ex.unify_types(ipat, target.strip(), inames, binds)
            binds = {k: v for k, v in binds.items() if v not in inames and v != k}
            if binds:
                ex.pending_generics = dict(binds)
        yield from ex.run(f, [make_iter(ex, src, False)], 1)

    ex.collect_into = collect_into

    # ---------------------------------------------------------------- HashMap / HashSet
    @model(r"^(std::collections::)?(HashMap|HashSet)::(<.*>::)?new$|^<(std::collections::)?(HashMap|HashSet)<.*> as Default>::default$", "HashMap::new / HashSet::new")
    def map_new(ex, callee, args, rt):
        yield MapObj(ex.fresh_name("map"), is_set="HashSet" in callee)

    @model(r"^(std::collections::)?HashMap::(<.*>::)?insert$", "HashMap::insert")
    def hm_insert(ex, callee, args, rt):
        m = ex.deref(args[0])
        yield from map_insert(ex, m, args[1], args[2])

    @model(r"^(std::collections::)?HashSet::(<.*>::)?insert$", "HashSet::insert (true iff newly inserted)")
    def hs_insert(ex, callee, args, rt):
        m = ex.deref(args[0])
        yield from map_insert(ex, m, args[1], UNIT)

    @model(r"^(std::collections::)?(HashMap|HashSet)::(<.*>::)?(get|get_mut|contains_key|contains)$", "HashMap::get/get_mut/contains_key, HashSet::contains")
    def hm_get(ex, callee, args, rt):
        m = ex.deref(args[0])
        op = strip_turbofish(callee).rsplit("::", 1)[1]
        key = args[1]
        if op in ("contains_key", "contains") and m.meta.get("arbitrary"):
            for i in map_lookup(ex, m, key):
                yield z3.BoolVal(i is not None)
            return
        if op in ("contains_key", "contains"):
            # no fork needed: a boolean term
            key = ex.deref(key)
            terms = [z3.And(p, key_eq(ex, k, key)) for (k, p, c) in m.entries]
            yield z3.Or(*terms) if terms else z3.BoolVal(False)
            return
        for i in map_lookup(ex, m, key):
            if i is None:
                yield NONE
            else:
                yield Some(Ref(m.entries[i][2]))

    @model(r"^(std::collections::)?(HashMap|HashSet)::(<.*>::)?remove$", "HashMap::remove / HashSet::remove")
    def hm_remove(ex, callee, args, rt):
        m = ex.deref(args[0])
        for i in map_lookup(ex, m, args[1]):
            if i is None:
                yield z3.BoolVal(False) if m.is_set else NONE
            else:
                k, p, c = m.entries[i]
                TRAIL.append((m.entries, None, i, m.entries[i]))
                m.entries[i] = (k, z3.BoolVal(False), c)
                yield z3.BoolVal(True) if m.is_set else Some(c.v)

    @model(r"^(std::collections::)?(HashMap|HashSet)::(<.*>::)?(iter|keys|values)$", "HashMap::iter/keys")
    def hm_iter(ex, callee, args, rt):
        m = ex.deref(args[0])
        op = strip_turbofish(callee).rsplit("::", 1)[1]
        it = IterObj("map", m=m, visited=(), by_ref=True)
        if op == "iter":
            yield it
        else:
            raise Unsupported("HashMap::" + op)

    @model(r"^(std::collections::)?(HashMap|HashSet)::(<.*>::)?is_empty$", "HashMap/HashSet::is_empty")
    def hm_is_empty(ex, callee, args, rt):
        m = ex.deref(args[0])
        if m.meta.get("arbitrary"):
            yield ex.fresh_bool("is_empty_" + m.name)
            return
        yield z3.Not(z3.Or(*[p for (k, p, c) in m.entries])) if m.entries else z3.BoolVal(True)

    @model(r"^(std::collections::)?(HashMap|HashSet)::(<.*>::)?clear$", "HashMap/HashSet::clear")
    def hm_clear(ex, callee, args, rt):
        m = ex.deref(args[0])
        for i, (k, p, c) in enumerate(list(m.entries)):
            TRAIL.append((m.entries, None, i, m.entries[i]))
            m.entries[i] = (k, z3.BoolVal(False), c)
        if m.meta.get("arbitrary"):
            tput(m.meta, "arbitrary", False)
        yield UNIT

    @model(r"^(std::collections::)?HashMap::(<.*>::)?entry$", "HashMap::entry")
    def hm_entry(ex, callee, args, rt):
        yield Adt("MapEntry", None, [ex.deref(args[0]), args[1]])

    @model(r"Entry::<.*>::or_insert_with$|Entry::or_insert_with$|Entry::<.*>::or_insert$|Entry::or_insert$", "Entry::or_insert_with / or_insert")
    def hm_or_insert(ex, callee, args, rt):
        ent = args[0]
        m, key = ent.fields
        for i in map_lookup(ex, m, key):
            if i is not None:
                yield Ref(m.entries[i][2])
            else:
                if strip_turbofish(callee).endswith("or_insert_with"):
                    vals = ex.call_closure(args[1], [])
                else:
                    vals = iter([args[1]])
                for v in vals:
                    for _ in map_insert(ex, m, key, v):
                        for j in map_lookup(ex, m, key):
                            if j is not None:
                                yield Ref(m.entries[j][2])

    @model(r"^(std::collections::)?(HashMap|HashSet)::(<.*>::)?len$", "HashMap::len")
    def hm_len(ex, callee, args, rt):
        m = ex.deref(args[0])
        yield z3.Sum([z3.If(p, 1, 0) for (k, p, c) in m.entries]) if m.entries else z3.IntVal(0)

    @model(r"^<(std::collections::)?HashMap<.*> as Extend<.*>>::extend$", "HashMap::extend (later entries win)")
    def hm_extend(ex, callee, args, rt):
        m = ex.deref(args[0])
        it = make_iter(ex, args[1], False)
        for items in drain(ex, it):
            def rec(j):
                if j == len(items):
                    yield UNIT
                    return
                k, v = items[j].items
                for _ in map_insert(ex, m, k, v):
                    yield from rec(j + 1)
            yield from rec(0)

    ex.models.extend(M)


def _norm(t):
    t = re.sub(r"\b(\w+::)+", "", t)
    return re.sub(r"\s+", "", t)
