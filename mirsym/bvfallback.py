"""Counterexample search by bit-blasting, used only after the integer/FP encoding came back `unknown`.

The path condition of a failed-to-decide obligation mixes nonlinear integer arithmetic with floating point (through Int2BV):
z3's combination of the two theories often gives up although a small counterexample exists. Here every Int term of the query
is re-encoded as a 64-bit two's-complement bit-vector term, which turns the whole query into one SAT problem.

Soundness: the re-encoding is NOT equivalent to the integer query when a 64-bit intermediate wraps, so
  * `sat`  is only a candidate: the model is translated back, checked against the ORIGINAL integer query by evaluation, and
            then replayed against the real code like every other counterexample;
  * `unsat`/`unknown` is ignored: the obligation stays undecided (= inconclusive, never a pass).
"""
import z3

W = 64


class NoTranslation(Exception):
    pass


class Translator:
    def __init__(self, width=64):
        self.W = width
        self.cache = {}
        self.vars = {}          # Int const name -> BV const
        self.side = []          # range side conditions that keep the BV reading equal to the Int reading

    def bv(self, e):
        """Int-sorted term -> BV64 term"""
        k = e.get_id()
        if k in self.cache:
            return self.cache[k]
        r = self._bv(e)
        self.cache[k] = r
        return r

    def _bv(self, e):
        if z3.is_int_value(e):
            v = e.as_long()
            if not -(1 << (self.W - 2)) < v < (1 << (self.W - 2)) and not (self.W == 32 and -(1 << 31) <= v < (1 << 31)):
                raise NoTranslation("constant out of range for width %d" % self.W)
            return z3.BitVecVal(v, self.W)
        d = e.decl().kind()
        ch = e.children()
        if d == z3.Z3_OP_UNINTERPRETED and not ch:
            nm = e.decl().name()
            if nm not in self.vars:
                v = z3.BitVec("bv!" + nm, self.W)
                self.vars[nm] = (e, v)
                # every integer variable of the encodings is a machine integer or a product/quotient of two
                if self.W > 32:
                    self.side.append(z3.And(v > -(1 << (self.W - 2)), v < (1 << (self.W - 2))))
            return self.vars[nm][1]
        if d == z3.Z3_OP_ADD:
            r = self.bv(ch[0])
            for c in ch[1:]:
                r = r + self.bv(c)
            return r
        if d == z3.Z3_OP_SUB:
            r = self.bv(ch[0])
            for c in ch[1:]:
                r = r - self.bv(c)
            return r
        if d == z3.Z3_OP_UMINUS:
            return -self.bv(ch[0])
        if d == z3.Z3_OP_MUL:
            r = self.bv(ch[0])
            for c in ch[1:]:
                r = r * self.bv(c)
            return r
        if d == z3.Z3_OP_ITE:
            return z3.If(self.bool(ch[0]), self.bv(ch[1]), self.bv(ch[2]))
        if d in (z3.Z3_OP_IDIV, z3.Z3_OP_DIV):
            a, b = self.bv(ch[0]), self.bv(ch[1])
            # SMT-LIB integer division is floor-like for positive divisors and ceil-like for negative ones (remainder >= 0)
            q = a / b
            r = z3.SRem(a, b)
            return z3.If(r < 0, z3.If(b > 0, q - 1, q + 1), q)
        if d == z3.Z3_OP_MOD:
            a, b = self.bv(ch[0]), self.bv(ch[1])
            r = z3.SRem(a, b)
            return z3.If(r < 0, z3.If(b > 0, r + b, r - b), r)
        if d == z3.Z3_OP_BV2INT:
            x = ch[0]
            n = x.size()
            if n >= self.W:
                raise NoTranslation("bv2int of a wide vector")
            return z3.ZeroExt(self.W - n, x)
        if d == z3.Z3_OP_TO_INT or d == z3.Z3_OP_TO_REAL:
            raise NoTranslation("real arithmetic")
        raise NoTranslation("integer operator %s" % e.decl().name())

    def bool(self, e):
        k = ("b", e.get_id())
        if k in self.cache:
            return self.cache[k]
        r = self._bool(e)
        self.cache[k] = r
        return r

    def _bool(self, e):
        d = e.decl().kind()
        ch = e.children()
        if z3.is_true(e) or z3.is_false(e):
            return e
        if d == z3.Z3_OP_AND:
            return z3.And(*[self.bool(c) for c in ch])
        if d == z3.Z3_OP_OR:
            return z3.Or(*[self.bool(c) for c in ch])
        if d == z3.Z3_OP_NOT:
            return z3.Not(self.bool(ch[0]))
        if d == z3.Z3_OP_IMPLIES:
            return z3.Implies(self.bool(ch[0]), self.bool(ch[1]))
        if d == z3.Z3_OP_XOR:
            return z3.Xor(self.bool(ch[0]), self.bool(ch[1]))
        if d == z3.Z3_OP_ITE:
            return z3.If(self.bool(ch[0]), self.bool(ch[1]), self.bool(ch[2]))
        if d in (z3.Z3_OP_EQ, z3.Z3_OP_DISTINCT):
            if z3.is_int(ch[0]):
                xs = [self.bv(c) for c in ch]
                return (xs[0] == xs[1]) if d == z3.Z3_OP_EQ else z3.Distinct(*xs)
            if z3.is_bool(ch[0]):
                xs = [self.bool(c) for c in ch]
                return (xs[0] == xs[1]) if d == z3.Z3_OP_EQ else z3.Xor(xs[0], xs[1])
            xs = [self.other(c) for c in ch]
            return (xs[0] == xs[1]) if d == z3.Z3_OP_EQ else z3.Distinct(*xs)
        if d in (z3.Z3_OP_LE, z3.Z3_OP_LT, z3.Z3_OP_GE, z3.Z3_OP_GT):
            if not z3.is_int(ch[0]):
                raise NoTranslation("real comparison")
            a, b = self.bv(ch[0]), self.bv(ch[1])
            return {z3.Z3_OP_LE: a <= b, z3.Z3_OP_LT: a < b, z3.Z3_OP_GE: a >= b, z3.Z3_OP_GT: a > b}[d]
        if d == z3.Z3_OP_UNINTERPRETED and not ch:
            return e
        # floating-point and bit-vector predicates: rebuild with translated children
        return self.rebuild(e)

    def other(self, e):
        """FP / BV / other sorted term: rebuild, translating Int sub-terms"""
        k = ("o", e.get_id())
        if k in self.cache:
            return self.cache[k]
        r = self.rebuild(e)
        self.cache[k] = r
        return r

    def rebuild(self, e):
        d = e.decl().kind()
        ch = e.children()
        if not ch:
            if z3.is_int(e):
                raise NoTranslation("int leaf in non-int position")
            return e
        if d == z3.Z3_OP_INT2BV:
            n = e.sort().size()
            x = self.bv(ch[0])
            if n == self.W:
                return x
            if n > self.W:
                return z3.SignExt(n - self.W, x)
            return z3.Extract(n - 1, 0, x)
        new = []
        for c in ch:
            if z3.is_int(c):
                raise NoTranslation("Int argument of %s" % e.decl().name())
            if z3.is_bool(c):
                new.append(self.bool(c))
            else:
                new.append(self.other(c))
        try:
            return e.decl()(*new)
        except Exception as ex:
            raise NoTranslation("rebuild %s: %s" % (e.decl().name(), ex))


def find_counterexample(assertions, int_inputs, timeout_ms=60000, seed=0):
    import os
    if os.environ.get("VERIF_DUMP_BV"):
        import time as _t
        s0 = z3.Solver()
        s0.add(*assertions)
        open(os.path.join(os.environ["VERIF_DUMP_BV"], "bvq_%d.smt2" % int(_t.time() * 1000)), "w").write(s0.to_smt2())
    """assertions: the z3 Bool terms of the undecided query (path condition, pre, negated post).
    Returns {name: int} for the Int constants of the query (every one, not only the inputs) together with a z3 model of the
    ORIGINAL query obtained by fixing those integers - or None."""
    # narrow vectors first: a model found with 32-bit arithmetic is only a candidate (products may wrap), but candidates are
    # re-checked in the integer encoding below, and the narrow problem is far easier for the SAT back end
    t_end = __import__("time").time() + timeout_ms / 1000.0
    m = None
    why = []
    for width, share in ((32, 0.34), (48, 0.5), (64, 1.0)):
        left = t_end - __import__("time").time()
        if left <= 1:
            break
        tr = Translator(width)
        try:
            goal = [tr.bool(a) for a in assertions]
        except NoTranslation as e:
            why.append("width %d: %s" % (width, e))
            continue
        s = z3.SolverFor("QF_FPBV") if hasattr(z3, "SolverFor") else z3.Solver()
        s.set("timeout", int(1000 * left * share))
        try:
            s.set("random_seed", seed)
        except Exception:
            pass
        s.add(*goal)
        s.add(*tr.side)
        r = s.check()
        why.append("width %d: %s" % (width, r))
        if r != z3.sat:
            continue
        cand = s.model()
        fixed0 = [iv == cand.eval(bvv, model_completion=True).as_signed_long() for nm, (iv, bvv) in tr.vars.items()]
        s0 = z3.Solver()
        s0.set("timeout", 20000)
        s0.add(*assertions)
        s0.add(*fixed0)
        if s0.check() == z3.sat:
            m = cand
            break
        why.append("width %d: candidate wraps" % width)
    if m is None:
        return None, "bit-vector search: " + "; ".join(why)
    m = s.model()
    fixed = []
    for nm, (iv, bvv) in tr.vars.items():
        val = m.eval(bvv, model_completion=True).as_signed_long()
        fixed.append(iv == val)
    # confirm in the original theory: with every integer fixed the query is ground integer arithmetic plus FP over constants
    s2 = z3.Solver()
    s2.set("timeout", 20000)
    s2.add(*assertions)
    s2.add(*fixed)
    # keep the FP / Bool choices of the bit-vector model as well
    for dcl in m.decls():
        if dcl.arity() == 0 and not dcl.name().startswith("bv!"):
            c = dcl()
            try:
                s2.add(c == m[dcl])
            except Exception:
                pass
    if s2.check() != z3.sat:
        return None, "bit-vector candidate is not a model of the integer query (a 64-bit intermediate wrapped)"
    return s2.model(), "found by bit-vector re-encoding"
