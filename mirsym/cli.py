"""./check <ID> [--tier quick|thorough] | ./check replay <file>"""
import argparse
import importlib
import json
import os
import sys
import traceback

from .core import Unsupported, Inconclusive
from .harness import Check, Broken, VERIF


def main(argv=None):
    ap = argparse.ArgumentParser()
    ap.add_argument("pid")
    ap.add_argument("arg", nargs="?")
    ap.add_argument("--tier", default=os.environ.get("VERIF_TIER", "quick"), choices=["quick", "thorough"])
    a = ap.parse_args(argv)
    seed = int(os.environ.get("VERIF_SEED", "0") or 0)
    if a.pid == "replay":
        from . import replay
        return replay.main(a.arg)
    pid = a.pid.upper()
    try:
        spec = importlib.import_module("mirsym.specs." + pid.lower())
    except ImportError as e:
        print("no check for %s: %s" % (pid, e))
        return 2
    chk = None
    try:
        chk = Check(pid, a.tier, seed)
        spec.run(chk)
        return chk.finish()
    except (Unsupported, Inconclusive, Broken) as e:
        print("INCONCLUSIVE: %s: %s" % (type(e).__name__, e))
        traceback.print_exc(limit=8)
        if chk is not None:
            chk.inconclusive.append("%s: %s" % (type(e).__name__, e))
            try:
                st = chk.finish()
                # a violation that was already reproduced natively stays a violation even if a later unit could not be encoded
                return 1 if st == 1 else 2
            except Exception:
                traceback.print_exc()
        return 2
    except Exception:
        traceback.print_exc()
        if chk is not None:
            chk.ws.cleanup()
        return 2


if __name__ == "__main__":
    sys.exit(main())
