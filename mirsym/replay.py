"""./check replay <file>: re-runs the native commands recorded with a reported violation against /repo's current tree"""
import json
import sys

from .harness import Workspace, unhexs


def main(path):
    if not path:
        print("usage: ./check replay <replays/...json>")
        return 2
    rec = json.load(open(path))
    print("property %s, unit %s" % (rec.get("property"), rec.get("unit")))
    print("obligation: %s" % rec.get("obligation"))
    print("inputs: %s" % rec.get("inputs"))
    print("reported: %s" % rec.get("replay"))
    cmds = rec.get("native_commands") or []
    if not cmds:
        print("no native commands recorded with this violation")
        return 2
    ws = Workspace()
    same = True
    try:
        for prof, cmd, out in cmds:
            nat = ws.runner(prof)
            now = nat.cmd(cmd)
            print("[%s] %s\n    then: %s\n    now:  %s" % (prof, cmd[:200], out[:300], now[:300]))
            if now != out:
                same = False
    finally:
        ws.cleanup()
    if same:
        print("VIOLATION property=%s replay=%s" % (rec.get("property"), path))
        print("the real build behaves exactly as it did when the violation was reported")
        return 1
    print("the real build now behaves differently: the recorded violation does not reproduce on this tree")
    return 0


if __name__ == "__main__":
    sys.exit(main(sys.argv[1] if len(sys.argv) > 1 else None))
