"""Common machinery of the checks: scratch copy + MIR dump, native runner, obligations, known findings, evidence."""
import atexit
import hashlib
import json
import os
import re
import shutil
import subprocess
import sys
import tempfile
import time

import z3

from . import mir
from .core import Executor, Unsupported, Inconclusive, TRAIL, undo

VERIF = os.path.dirname(os.path.dirname(os.path.abspath(__file__)))
REPO = os.environ.get("VERIF_REPO", "/repo")
CACHE = os.environ.get("VERIF_CACHE", os.path.join(VERIF, ".cache"))
ENV = dict(os.environ, CARGO_NET_OFFLINE="true", CARGO_TERM_COLOR="never")


class Broken(Exception):
    """the check itself cannot give a verdict (exit 2)"""


def sh(cmd, cwd=None, env=None, timeout=3600):
    p = subprocess.run(cmd, cwd=cwd, env=env or ENV, stdout=subprocess.PIPE, stderr=subprocess.PIPE, timeout=timeout)
    return p.returncode, p.stdout.decode("utf-8", "replace"), p.stderr.decode("utf-8", "replace")


class Workspace:
    """fresh scratch copy of /repo's working tree (outside /repo and /verif), removed at exit"""

    def __init__(self):
        base = os.environ.get("VERIF_SCRATCH", tempfile.gettempdir())
        self.root = tempfile.mkdtemp(prefix="ruschm-verif-", dir=base)
        atexit.register(self.cleanup)
        self.crate = os.path.join(self.root, "crate")
        os.makedirs(self.crate)
        for item in ("src", "Cargo.toml", "Cargo.lock", "tests", "examples"):
            s = os.path.join(REPO, item)
            if os.path.isdir(s):
                shutil.copytree(s, os.path.join(self.crate, item))
            elif os.path.exists(s):
                shutil.copy2(s, os.path.join(self.crate, item))
        self.src_hash = self._hash_sources()
        self.mir_cache = {}
        self.runners = {}
        self.timing = {}
        os.makedirs(CACHE, exist_ok=True)

    def _hash_sources(self):
        h = hashlib.sha256()
        for root, _, files in sorted(os.walk(os.path.join(self.crate, "src"))):
            for f in sorted(files):
                p = os.path.join(root, f)
                h.update(p[len(self.crate):].encode())
                h.update(open(p, "rb").read())
        return h.hexdigest()[:16]

    def cleanup(self):
        for r in self.runners.values():
            r.close()
        self.runners = {}
        shutil.rmtree(self.root, ignore_errors=True)

    # -------------------------------------------------------------------------------------------- MIR
    def mir(self, overflow_checks=True):
        key = "dev" if overflow_checks else "rel"
        if key in self.mir_cache:
            return self.mir_cache[key]
        t = time.time()
        env = dict(ENV, CARGO_TARGET_DIR=os.path.join(CACHE, "target-mir-" + key))
        cmd = ["cargo", "+nightly", "rustc", "--offline", "--lib", "--", "-Zunpretty=mir", "-C", "debug-assertions=off",
               "-C", "overflow-checks=" + ("on" if overflow_checks else "off")]
        rc, out, err = sh(cmd, cwd=self.crate, env=env)
        if rc != 0 or "fn " not in out:
            raise Broken("MIR dump failed (rc=%d):\n%s" % (rc, err[-3000:]))
        fns = mir.parse_mir(out)
        self.timing["mir_" + key + "_s"] = round(time.time() - t, 2)
        self.mir_cache[key] = (fns, hashlib.sha256(out.encode()).hexdigest()[:16], out.count("\n"))
        return self.mir_cache[key]

    def mir_bin(self, name="ruschm"):
        """MIR of the binary target (src/main.rs), dev profile"""
        key = "bin-" + name
        if key in self.mir_cache:
            return self.mir_cache[key]
        t = time.time()
        env = dict(ENV, CARGO_TARGET_DIR=os.path.join(CACHE, "target-mir-dev"))
        cmd = ["cargo", "+nightly", "rustc", "--offline", "--bin", name, "--", "-Zunpretty=mir", "-C", "debug-assertions=off", "-C", "overflow-checks=on"]
        import fcntl
        with open(os.path.join(CACHE, "target-mir-bin.lock"), "w") as lk:
            fcntl.flock(lk, fcntl.LOCK_EX)
            # the dump is printed only when the target is compiled: make sure it is
            os.utime(os.path.join(self.crate, "src", "main.rs"), None)
            rc, out, err = sh(cmd, cwd=self.crate, env=env)
        if rc != 0 or "fn main" not in out:
            raise Broken("MIR dump of the binary failed (rc=%d):\n%s" % (rc, err[-3000:]))
        fns = mir.parse_mir(out)
        self.timing["mir_bin_s"] = round(time.time() - t, 2)
        self.mir_cache[key] = (fns, hashlib.sha256(out.encode()).hexdigest()[:16], out.count("\n"))
        return self.mir_cache[key]

    def executor_bin(self, seed=0, timeout_ms=30000):
        """executor over the binary's own functions (main) together with the library's"""
        fns_lib, _, _ = self.mir(True)
        fns_bin, _, _ = self.mir_bin()
        if not mir.STRUCTS:
            mir.parse_decls(os.path.join(self.crate, "src"))
        fns = dict(fns_lib)
        for k, v in fns_bin.items():
            fns.setdefault(k, v)
        ex = Executor(fns, self.crate, seed=seed, timeout_ms=timeout_ms)
        ex.overflow_checks = True
        return ex

    def executor(self, overflow_checks=True, seed=0, timeout_ms=30000):
        fns, _, _ = self.mir(overflow_checks)
        if not mir.STRUCTS:
            mir.parse_decls(os.path.join(self.crate, "src"))
            d = mir.has_drop_impl(os.path.join(self.crate, "src"))
            if d:
                raise Broken("the crate now defines `impl Drop` (%s): drops are not modelled, refusing to encode" % d)
        ex = Executor(fns, self.crate, seed=seed, timeout_ms=timeout_ms)
        ex.overflow_checks = overflow_checks
        return ex

    # -------------------------------------------------------------------------------------------- native runner
    def runner(self, profile="dev"):
        if profile in self.runners:
            return self.runners[profile]
        t = time.time()
        bindir = os.path.join(self.crate, "src", "bin")
        os.makedirs(bindir, exist_ok=True)
        dst = os.path.join(bindir, "verif_runner.rs")
        if not os.path.exists(dst):
            shutil.copy2(os.path.join(VERIF, "native", "verif_runner.rs"), dst)
            shutil.copy2(os.path.join(VERIF, "kani", "c18_reference.rs"), os.path.join(self.crate, "src", "verif_c18_reference.rs"))
            self.stamp = "%s-%s" % (self.src_hash, os.path.basename(self.root))
            with open(os.path.join(self.crate, "src", "repl.rs"), "a") as f:
                f.write("\n#[doc(hidden)]\npub fn __verif_check_bracket_closed(s: &str) -> bool {\n    check_bracket_closed(s.chars())\n}\n"
                        "#[doc(hidden)]\npub const __VERIF_STAMP: &str = \"%s\";\n" % self.stamp)
        env = dict(ENV, CARGO_TARGET_DIR=os.path.join(CACHE, "target-native"), RUSTFLAGS="-Awarnings")
        cmd = ["cargo", "build", "--offline", "--bin", "verif_runner"] + (["--release"] if profile == "release" else [])
        # the dependency cache is shared between concurrently running checks: build and take a private copy of the
        # binary under one lock, so that no other check can replace it in between
        import fcntl
        mine = os.path.join(self.root, "verif_runner_" + profile)
        with open(os.path.join(CACHE, "target-native.lock"), "w") as lk:
            fcntl.flock(lk, fcntl.LOCK_EX)
            rc, out, err = sh(cmd, cwd=self.crate, env=env)
            if rc != 0:
                raise Broken("native runner build failed:\n" + err[-4000:])
            exe = os.path.join(CACHE, "target-native", "release" if profile == "release" else "debug", "verif_runner")
            shutil.copy2(exe, mine)
        self.timing["native_build_%s_s" % profile] = round(time.time() - t, 2)
        r = NativeRunner(mine)
        pong = r.cmd("ping")
        if pong != "OK pong " + self.stamp:
            # the binary is not the one built from this copy of the sources (shared dependency cache raced): rebuild privately
            r.close()
            env2 = dict(env, CARGO_TARGET_DIR=os.path.join(self.root, "target-private"))
            rc, out, err = sh(cmd, cwd=self.crate, env=env2)
            if rc != 0:
                raise Broken("native runner build failed:\n" + err[-4000:])
            shutil.copy2(os.path.join(self.root, "target-private", "release" if profile == "release" else "debug", "verif_runner"), mine)
            r = NativeRunner(mine)
            pong = r.cmd("ping")
            if pong != "OK pong " + self.stamp:
                raise Broken("native runner is not built from the sources under test (got %r, want stamp %s)" % (pong, self.stamp))
            self.timing["native_private_rebuild"] = True
        self.runners[profile] = r
        return r


    def repl_binary(self):
        """the interpreter's own executable built from the sources under test (dev profile): its REPL is driven over a pipe"""
        mine = os.path.join(self.root, "ruschm_dev")
        if os.path.exists(mine):
            return mine
        self.runner("dev")          # makes sure the scratch copy carries the runner's additions (same crate state for both binaries)
        env = dict(ENV, CARGO_TARGET_DIR=os.path.join(CACHE, "target-native"), RUSTFLAGS="-Awarnings")
        import fcntl
        t = time.time()
        with open(os.path.join(CACHE, "target-native.lock"), "w") as lk:
            fcntl.flock(lk, fcntl.LOCK_EX)
            rc, out, err = sh(["cargo", "build", "--offline", "--bin", "ruschm"], cwd=self.crate, env=env)
            if rc != 0:
                raise Broken("building the ruschm binary failed:\n" + err[-4000:])
            shutil.copy2(os.path.join(CACHE, "target-native", "debug", "ruschm"), mine)
        self.timing["repl_binary_build_s"] = round(time.time() - t, 2)
        return mine


class NativeRunner:
    def __init__(self, exe):
        self.exe = exe
        self.p = None
        self.calls = 0
        self.trace = None
        self._start()

    def _start(self):
        self.p = subprocess.Popen([self.exe], stdin=subprocess.PIPE, stdout=subprocess.PIPE, stderr=subprocess.DEVNULL, bufsize=0)

    def cmd(self, line):
        out = self._cmd(line)
        if self.trace is not None:
            self.trace.append((line, out))
        return out

    def _cmd(self, line):
        self.calls += 1
        if self.p.poll() is not None:
            self._start()
        import select
        try:
            self.p.stdin.write((line + "\n").encode())
            self.p.stdin.flush()
            buf = b""
            deadline = time.time() + float(os.environ.get("VERIF_NATIVE_TIMEOUT_S", "60"))
            while not buf.endswith(b"\n"):
                left = deadline - time.time()
                if left <= 0:
                    self.p.kill()
                    self.p.wait()
                    self._start()
                    return "TIMEOUT"
                r, _, _ = select.select([self.p.stdout], [], [], left)
                if not r:
                    continue
                ch = os.read(self.p.stdout.fileno(), 65536)
                if not ch:
                    break
                buf += ch
            out = buf.decode("utf-8", "replace").strip()
        except BrokenPipeError:
            out = ""
        if not out:
            # the process died (abort / stack overflow): that is itself an observation
            rc = self.p.wait()
            self._start()
            return "ABORT %s" % rc
        return out

    def close(self):
        try:
            self.p.stdin.close()
            self.p.wait(timeout=5)
        except Exception:
            try:
                self.p.kill()
            except Exception:
                pass


def hexs(s):
    b = s.encode("utf-8")
    return b.hex() if b else "-"


def unhexs(s):
    return "" if s == "-" else bytes.fromhex(s).decode("utf-8", "replace")


# ------------------------------------------------------------------------------------------------ the check object
class Check:
    def __init__(self, pid, tier, seed, design_ref=""):
        self.pid = pid
        self.tier = tier
        self.seed = seed
        self.t0 = time.time()
        self.ws = Workspace()
        self.obligations = 0
        self.discharged = 0
        self.paths = 0
        self.units = {}                 # unit -> {paths, obligations, discharged, ...}
        self.samples = []
        self.violations = []            # new, replayed violations
        self.known_seen = {}            # finding id -> witness
        self.inconclusive = []
        self.validated = 0
        self.validation_mismatch = []
        self.witnesses = 0              # reachability witnesses (vacuity guard)
        self.assumptions = []
        self.bounds = {}
        self.encoded = set()
        self.models_used = set()
        self.stubs_used = set()
        self.solver_s = 0.0
        self.solver_checks = 0
        self.executors = []
        self.notes = []
        self.cvc5 = {"queries": 0, "agree": 0, "disagree": 0, "unknown": 0, "time_s": 0.0}
        kf = json.load(open(os.path.join(VERIF, "known_findings.json")))
        self.findings = [f for f in kf["findings"] if f["property"] == pid]
        self.fixed = [f for f in kf.get("fixed", []) if f["property"] == pid]

    # -------------------------------------------------------------------------------------------- executors
    def executor(self, overflow_checks=True, timeout_ms=30000):
        ex = self.ws.executor(overflow_checks, seed=self.seed, timeout_ms=timeout_ms)
        if self.tier == "thorough":
            ex.ctx.portfolio = ((1, 10000), (7, 20000), (23, 40000))
            ex.ctx.portfolio_cvc5 = True
        budget = float(os.environ.get("VERIF_BUDGET_S", "900" if self.tier == "quick" else "5400"))
        ex.deadline = self.t0 + budget
        if getattr(self, "violation_cap", None):
            ex.deadline = min(ex.deadline, self.violation_cap)
        if getattr(self, "step_deadline", None):
            ex.deadline = min(ex.deadline, self.step_deadline)
        self.executors.append(ex)
        return ex

    def cap_after_violation(self):
        """a violation has been reproduced against the real code, so the verdict of this run is fixed: the rest of the
        exploration (which can only add further counterexamples) is capped"""
        if getattr(self, "violation_cap", None) is None:
            self.violation_cap = time.time() + float(os.environ.get("VERIF_AFTER_VIOLATION_S", "60"))
            for ex in self.executors:
                if ex.deadline:
                    ex.deadline = min(ex.deadline, self.violation_cap)

    def over_budget(self):
        budget = float(os.environ.get("VERIF_BUDGET_S", "900" if self.tier == "quick" else "5400"))
        return time.time() - self.t0 > budget

    def step(self, label, fn, *a, **kw):
        """run one unit of a spec; VERIF_ONLY=<regex> restricts a debugging run to matching units"""
        only = os.environ.get("VERIF_ONLY")
        if only and not re.search(only, label):
            self.notes.append("unit %s skipped by VERIF_ONLY" % label)
            self.partial = True
            return None
        t = time.time()
        if getattr(self, "violation_cap", None) and t > self.violation_cap:
            self.notes.append("unit %s not explored: a violation was already reproduced and the time cap after it was reached" % label)
            return None
        # no single unit may use more than a third of the time budget: a unit that explodes leaves time for the others
        budget = float(os.environ.get("VERIF_BUDGET_S", "900" if self.tier == "quick" else "5400"))
        self.step_deadline = t + (getattr(self, "step_budget_s", None) or budget / 3.0)
        try:
            r = fn(*a, **kw)
        except (Unsupported, Inconclusive) as e:
            # one unit that cannot be encoded or decided makes the run inconclusive, but the other units are still explored:
            # a violation reproduced there is reported
            self.inconclusive.append("%s in unit %s: %s" % (type(e).__name__, label, e))
            print("INCONCLUSIVE: %s in unit %s: %s" % (type(e).__name__, label, e))
            if os.environ.get("VERIF_DEBUG"):
                import traceback
                traceback.print_exc(limit=10)
            r = None
        self.unit_times = getattr(self, "unit_times", {})
        self.unit_times[label] = round(time.time() - t, 2)
        if os.environ.get("VERIF_DEBUG"):
            print("  [%6.1fs] %s (%d paths, %d/%d obligations so far)" % (time.time() - t, label, self.paths, self.discharged, self.obligations), file=sys.stderr)
        return r

    def run_probes(self, label, probe_fn, nat, count):
        """native probe programs of a unit, run once per check: they decide nothing, but (a) they are the traces against
        which the stub-level obligations are replayed, and (b) a probe that fails while no obligation is violated means the
        check has a blind spot - that run is reported as inconclusive, never as a pass"""
        for r in self.ws.runners.values():
            r.trace = []
        bad, detail = probe_fn(nat)
        cmds = [(prof, c, o) for prof, r in self.ws.runners.items() for (c, o) in (r.trace or [])]
        for r in self.ws.runners.values():
            r.trace = None
        self.validated += count
        self.probe_results = getattr(self, "probe_results", [])
        self.probe_results.append({"unit": label, "failed": bool(bad), "detail": detail[:400], "native_commands": cmds[-3:] if bad else []})

    def unit(self, name):
        return self.units.setdefault(name, {"paths": 0, "obligations": 0, "discharged": 0, "witnesses": 0, "panic_outcomes": 0})

    def path(self, unit):
        self.paths += 1
        self.unit(unit)["paths"] += 1

    # -------------------------------------------------------------------------------------------- obligations
    def regions_for(self, unit, obligation):
        out = []
        for f in self.findings:
            if f.get("status", "open") != "open":
                continue
            if re.fullmatch(f["unit"], unit) and re.fullmatch(f["obligation"], obligation):
                out.append(f)
        return out

    def oblige(self, ex, unit, name, post, inputs, replay, describe=None, pre=None, witness=True):
        replay0 = replay

        def replay(vals):
            for r in self.ws.runners.values():
                r.trace = []
            try:
                res = replay0(vals)
            except Exception as e:      # a replay that cannot be carried out is never a confirmation
                res = (False, "replay failed: %s: %s" % (type(e).__name__, e))
            self.last_native = [(prof, c, o) for prof, r in self.ws.runners.items() for (c, o) in (r.trace or [])]
            if self.last_native:
                self.last_nonempty_native = self.last_native
            else:
                # the native probes of a unit are run once per check and cached: reuse their record
                self.last_native = getattr(self, "last_nonempty_native", [])
            for r in self.ws.runners.values():
                r.trace = None
            return res
        return self._oblige(ex, unit, name, post, inputs, replay, describe, pre, witness)

    def _oblige(self, ex, unit, name, post, inputs, replay, describe=None, pre=None, witness=True):
        """Discharge `path-condition ∧ pre ⇒ post` on the path currently on ex.ctx's stack.
        inputs: {name: z3 const} printed in counterexamples and available to region predicates.
        replay(values: {name: python value}) -> (reproduced: bool, detail: str)"""
        u = self.unit(unit)
        self.obligations += 1
        u["obligations"] += 1
        ctx = ex.ctx
        nviol = sum(1 for v in self.violations if v["unit"] == unit and v["obligation"] == name)
        if nviol >= 2:
            # this obligation is already reported as violated (with replays); further instances add nothing but solver time
            u["skipped_after_violation"] = u.get("skipped_after_violation", 0) + 1
            return "skipped"
        if self.over_budget():
            if not getattr(self, "_budget_note", False):
                self.inconclusive.append("time budget exhausted: remaining obligations were not decided")
                self._budget_note = True
            return "skipped"
        regs = self.regions_for(unit, name)
        ns = dict(inputs)
        ns.update({"And": z3.And, "Or": z3.Or, "Not": z3.Not, "If": z3.If, "Implies": z3.Implies, "Abs": lambda x: z3.If(x < 0, -x, x)})
        ns.update(getattr(self, "region_ns", {}))
        reg_preds = []
        for f in regs:
            try:
                reg_preds.append(eval(f["region"], {"__builtins__": {}}, ns))
            except Exception as e:
                raise Broken("known finding %s: region does not evaluate in %s/%s: %s" % (f["id"], unit, name, e))
        if not regs and pre is None and not witness and z3.is_true(z3.simplify(post)):
            # the postcondition is syntactically true on this path (e.g. "the submitted text is the accumulated text" where both
            # are the same terms): nothing for the solver to decide; the path itself was found feasible by the executor
            self.discharged += 1
            u["discharged"] += 1
            u["trivial"] = u.get("trivial", 0) + 1
            return "holds"
        ctx.push()
        if pre is not None:
            ctx.add(pre)
        # vacuity witness: the path (with the precondition) is reachable
        if witness:
            r = ctx.check_light()
            if r == z3.sat:
                self.witnesses += 1
                u["witnesses"] += 1
            elif r == z3.unsat:
                ctx.pop()
                self.obligations -= 1
                u["obligations"] -= 1
                return "unreachable"
        # (A) outside all known regions the obligation must hold
        ctx.push()
        for k in reg_preds:
            ctx.add(z3.Not(k))
        ctx.add(z3.Not(post))
        tq = time.time()
        r = ctx.check()
        if os.environ.get("VERIF_DEBUG") and time.time() - tq > 2:
            print("  slow query %.1fs %s/%s -> %s" % (time.time() - tq, unit, name, r), file=sys.stderr)
        verdict = None
        if r == z3.unsat:
            self.discharged += 1
            u["discharged"] += 1
            verdict = "holds"
            self._cvc5_recheck(ctx, expect="unsat")
        elif r == z3.sat:
            m = ctx.model()
            vals = {k: model_value(m, v) for k, v in inputs.items()}
            ok, detail = replay(vals)
            rec = {"unit": unit, "obligation": name, "inputs": vals, "replay": detail, "reproduced": ok,
                   "description": describe(vals) if describe else "", "native_commands": getattr(self, "last_native", [])}
            if ok:
                self.violations.append(rec)
                self.cap_after_violation()
                verdict = "VIOLATED"
            else:
                self.inconclusive.append("counterexample of %s/%s does not reproduce natively (encoder or oracle wrong?): %s -> %s" % (unit, name, vals, detail))
                verdict = "spurious"
        else:
            # the full-width query timed out: look for a counterexample among small inputs (a model found there is a
            # genuine counterexample and is replayed like any other); if none, the obligation stays undecided
            verdict = "unknown"
            ints = [v for v in inputs.values() if z3.is_int(v)]
            for k in (4, 8, 15):
                ctx.push()
                for v in ints:
                    ctx.add(v > -2**k, v < 2**k)
                r2 = ctx.check()
                found = None
                if r2 == z3.sat:
                    m = ctx.model()
                    found = {kk: model_value(m, vv) for kk, vv in inputs.items()}
                ctx.pop()
                if found is not None:
                    ok, detail = replay(found)
                    if ok:
                        self.violations.append({"unit": unit, "obligation": name, "inputs": found, "replay": detail, "reproduced": True,
                                                "description": "found after the full-width query timed out, inputs restricted below 2^%d" % k})
                        self.cap_after_violation()
                        verdict = "VIOLATED"
                    break
            if verdict == "unknown":
                # last resort: the same query re-encoded over 64-bit vectors (one SAT problem instead of NIA + FP); a model is
                # confirmed in the integer encoding and replayed, anything else leaves the obligation undecided
                from . import bvfallback
                t_bv = time.time()
                m, how = bvfallback.find_counterexample(list(ctx.z.assertions()), inputs, timeout_ms=24000 if self.tier == "quick" else 240000, seed=self.seed)
                self.solver_s += time.time() - t_bv
                self.bv_fallbacks = getattr(self, "bv_fallbacks", 0) + 1
                if m is not None:
                    found = {kk: model_value(m, vv) for kk, vv in inputs.items()}
                    ok, detail = replay(found)
                    if ok:
                        self.violations.append({"unit": unit, "obligation": name, "inputs": found, "replay": detail, "reproduced": True,
                                                "description": how, "native_commands": getattr(self, "last_native", [])})
                        self.cap_after_violation()
                        verdict = "VIOLATED"
            if verdict == "unknown":
                self.inconclusive.append("solver unknown on %s/%s: %s; %s" % (unit, name, ctx.z.reason_unknown(), how))
        ctx.pop()
        # (B) inside each known region: is the finding still there?
        for f, k in zip(regs, reg_preds):
            if f["id"] in self.known_seen:
                continue
            ctx.push()
            ctx.add(k)
            ctx.add(z3.Not(post))
            r = ctx.check()
            if r == z3.sat:
                m = ctx.model()
                vals = {kk: model_value(m, v) for kk, v in inputs.items()}
                ok, detail = replay(vals)
                if ok:
                    self.known_seen[f["id"]] = {"inputs": vals, "replay": detail, "unit": unit, "obligation": name}
                else:
                    self.inconclusive.append("known finding %s: model in region does not reproduce natively: %s -> %s" % (f["id"], vals, detail))
            elif r == z3.unknown:
                self.notes.append("solver unknown inside known region %s on %s/%s" % (f["id"], unit, name))
            ctx.pop()
        ctx.pop()
        if len(self.samples) < 12 or (verdict != "holds" and len(self.samples) < 40):
            self.samples.append({"unit": unit, "obligation": name, "verdict": verdict,
                                 "path_condition": [str(c)[:200] for c in ctx.path_condition()[-6:]],
                                 "negated_post": str(z3.simplify(z3.Not(post)))[:300],
                                 "known_regions_excluded": [f["id"] for f in regs]})
        return verdict

    def _cvc5_recheck(self, ctx, expect):
        if self.tier != "thorough" or os.environ.get("VERIF_NO_CVC5"):
            return
        if self.cvc5["queries"] >= int(os.environ.get("VERIF_CVC5_MAX", "400")) or self.cvc5["time_s"] > float(os.environ.get("VERIF_CVC5_BUDGET_S", "90")):
            return
        try:
            txt = "(set-logic ALL)\n" + ctx.smt2()
        except Exception:
            return
        if "String" in txt or "FloatingPoint" in txt and "to_fp" in txt and False:
            return
        t = time.time()
        try:
            p = subprocess.run(["cvc5", "--lang", "smt2", "--tlimit=4000"], input=txt.encode(), stdout=subprocess.PIPE, stderr=subprocess.PIPE, timeout=10)
            out = p.stdout.decode().strip().split("\n")[0] if p.stdout else ""
        except Exception:
            out = "timeout"
        self.cvc5["time_s"] += time.time() - t
        self.cvc5["queries"] += 1
        if out == expect:
            self.cvc5["agree"] += 1
        elif out in ("sat", "unsat"):
            self.cvc5["disagree"] += 1
            self.inconclusive.append("cvc5 disagrees with z3 on a discharged query (z3 %s, cvc5 %s)" % (expect, out))
        else:
            self.cvc5["unknown"] += 1

    # -------------------------------------------------------------------------------------------- validation of the encoder
    def validate(self, unit, label, symbolic, native):
        """both are canonical strings; one mismatch makes the run inconclusive"""
        self.validated += 1
        if symbolic != native:
            self.validation_mismatch.append({"unit": unit, "case": label, "encoding": symbolic, "native": native})

    # -------------------------------------------------------------------------------------------- finishing
    def absorb(self, ex):
        self.encoded |= ex.inlined
        self.models_used |= ex.used_models
        self.stubs_used |= ex.used_stubs
        self.solver_s += ex.ctx.stats["solver_s"]
        self.solver_checks += ex.ctx.stats["checks"]
        if ex.truncated:
            self.inconclusive.append("unwinding bound hit in %s" % sorted(set(ex.truncated))[:5])

    def finish(self):
        for ex in self.executors:
            self.absorb(ex)
        self.executors = []
        wall = round(time.time() - self.t0, 2)
        status = 0
        lines = []
        # a native probe that misbehaves on the real build is a witnessed violation, whether or not one of this check's units led
        # to it: it is reported as such (labelled: not found by the solver), never swallowed into "inconclusive"
        for pr in getattr(self, "probe_results", []):
            if pr["failed"] and not any(v.get("replay", "")[:200] == pr["detail"][:200] for v in self.violations):
                self.violations.append({"unit": pr["unit"], "obligation": "native probe battery (witnessed on the real build; outside what the solver-decided units of this check reach)",
                                        "inputs": {}, "replay": pr["detail"], "reproduced": True, "found_by": "native probe, not the solver",
                                        "native_commands": pr.get("native_commands", [])})
        if self.validation_mismatch:
            self.inconclusive.append("encoder disagrees with the real code on %d validation case(s): %s" % (len(self.validation_mismatch), self.validation_mismatch[:3]))
        for u, d in self.units.items():
            if d["paths"] == 0 and d["obligations"] == 0:
                self.inconclusive.append("unit %s explored no feasible path (vacuous harness)" % u)
        os.makedirs(os.path.join(VERIF, "replays"), exist_ok=True)
        seen_v = set()
        uniq = []
        for v in self.violations:
            k = json.dumps([v["unit"], v["obligation"], v["inputs"], v["replay"]], sort_keys=True, default=str)
            if k not in seen_v:
                seen_v.add(k)
                uniq.append(v)
        self.violations = uniq
        for i, v in enumerate(self.violations):
            h = hashlib.sha256(json.dumps(v, sort_keys=True, default=str).encode()).hexdigest()[:10]
            p = os.path.join(VERIF, "replays", "%s-%s.json" % (self.pid, h))
            v2 = dict(v)
            v2["property"] = self.pid
            with open(p, "w") as f:
                json.dump(v2, f, indent=1, default=str)
            lines.append("VIOLATION property=%s replay=%s" % (self.pid, p))
            lines.append("  %s/%s inputs=%s :: %s" % (v["unit"], v["obligation"], v["inputs"], v["replay"]))
            status = 1
        for f in self.findings:
            if f.get("status", "open") != "open":
                continue
            if f["id"] in self.known_seen:
                w = self.known_seen[f["id"]]
                lines.append("KNOWN-FINDING: property=%s %s [%s] witness=%s" % (self.pid, f["what"], f["id"], w["inputs"]))
            else:
                self.notes.append("known finding %s was not observed in this run (tier %s)" % (f["id"], self.tier))
        if getattr(self, "partial", False):
            self.inconclusive.append("partial debugging run (VERIF_ONLY set): not a verdict")
        if self.inconclusive and status == 0:
            status = 2
        ev = {
            "property_id": self.pid, "tier": self.tier, "seed": self.seed, "level": "model_checking",
            "coverage": {
                "states": max(self.paths, 0), "transitions": self.solver_checks,
                "traces_validated_against_impl": self.validated,
                "samples": self.samples[:40] or [{"note": "no obligation was reached"}],
                "rule": "states = feasible symbolic paths through the encoded MIR (each stands for all inputs satisfying its path condition); "
                        "transitions = solver feasibility/obligation queries; traces_validated = concrete tuples on which the encoding was compared with the native build",
                "obligations": self.obligations, "discharged": self.discharged,
                "reachability_witnesses": self.witnesses,
                "units": self.units,
                "functions_encoded": sorted(self.encoded),
                "external_models_used": sorted(self.models_used),
                "stubs_used": sorted(self.stubs_used),
                "bounds": self.bounds,
                "solver": {"engine": "z3 " + z3.get_version_string(), "queries": self.solver_checks, "time_s": round(self.solver_s, 2), "cvc5_recheck": self.cvc5},
                "mir": {k: {"functions": len(v[0]), "sha256_16": v[1], "lines": v[2]} for k, v in self.ws.mir_cache.items()},
                "source_sha256_16": self.ws.src_hash,
                "timing": self.ws.timing, "unit_times_s": getattr(self, "unit_times", {}),
                "known_findings_observed": {k: v for k, v in self.known_seen.items()},
                "new_violations": self.violations,
                "inconclusive": self.inconclusive,
                "validation_mismatches": self.validation_mismatch[:10],
                "native_probes": getattr(self, "probe_results", []),
                "notes": self.notes,
                "exhaustive": False,
            },
            "assumptions": self.assumptions,
            "wall_s": wall,
            "violations": len(self.violations),
        }
        evdir = os.environ.get("VERIF_EVIDENCE_DIR", os.path.join(VERIF, "evidence"))
        os.makedirs(evdir, exist_ok=True)
        with open(os.path.join(evdir, "%s.json" % self.pid), "w") as f:
            json.dump(ev, f, indent=1, default=str)
        for ln in lines:
            print(ln)
        for n in self.inconclusive:
            print("INCONCLUSIVE: " + n)
        print("%s tier=%s seed=%d: %d paths, %d/%d obligations discharged, %d reachability witnesses, %d validation tuples, "
              "%d solver queries (%.1fs), wall %.1fs -> exit %d" % (self.pid, self.tier, self.seed, self.paths, self.discharged,
                                                                 self.obligations, self.witnesses, self.validated, self.solver_checks, self.solver_s, wall, status))
        self.ws.cleanup()
        return status


def model_value(m, v):
    x = m.eval(v, model_completion=True)
    if z3.is_int_value(x):
        return x.as_long()
    if z3.is_true(x):
        return True
    if z3.is_false(x):
        return False
    if z3.is_fp(x):
        try:
            bv = m.eval(z3.fpToIEEEBV(x), model_completion=True)
            return {"f32_bits": "%08x" % bv.as_long()}
        except Exception:
            return str(x)
    if z3.is_string_value(x):
        return x.as_string()
    return str(x)
