"""Parser for rustc's textual MIR dump (-Zunpretty=mir) and for the enum/struct declarations of the crate.

Nothing in here interprets anything: it only turns the text that rustc printed for /repo's *current* sources
into Fn/Block records and reads variant orders from the same sources.
"""
import os
import re
from functools import lru_cache


class Fn:
    __slots__ = ("name", "params", "ret", "locals", "blocks", "line", "promoted")

    def __init__(self, name, params, ret, line):
        self.name = name
        self.params = params      # [(local, type)]
        self.ret = ret
        self.locals = {}          # local -> type string
        self.blocks = {}          # bbN -> Block
        self.line = line

    def __repr__(self):
        return "<Fn %s>" % self.name


class Block:
    __slots__ = ("stmts", "term", "cleanup")

    def __init__(self, cleanup=False):
        self.stmts = []
        self.term = None
        self.cleanup = cleanup


def split_top(s, sep=","):
    """split at top-level separators, respecting () [] {} <> and string/char literals"""
    out = []
    depth = 0
    cur = []
    i = 0
    n = len(s)
    instr = False
    while i < n:
        c = s[i]
        if instr:
            cur.append(c)
            if c == "\\" and i + 1 < n:
                cur.append(s[i + 1])
                i += 1
            elif c == '"':
                instr = False
        elif c == '"':
            instr = True
            cur.append(c)
        elif c == "'" and i + 2 < n and (s[i + 2] == "'" or (s[i + 1] == "\\" and "'" in s[i + 2:i + 12])):
            # char literal 'x' or '\n' / '\u{..}'
            j = s.index("'", i + 2) if s[i + 1] == "\\" else i + 2
            cur.append(s[i:j + 1])
            i = j
        elif c in "([{":
            depth += 1
            cur.append(c)
        elif c in ")]}":
            depth -= 1
            cur.append(c)
        elif c == "<" and not (s[i - 1:i + 2] == " < " or s[i - 1:i + 3] == " <= " or s[i - 1:i + 3] == " << "):
            depth += 1
            cur.append(c)
        elif c == ">" and not (i > 0 and s[i - 1] in "-=") and not (s[i - 1:i + 2] == " > " or s[i - 1:i + 3] == " >= " or s[i - 1:i + 3] == " >> "):
            depth -= 1
            cur.append(c)
        elif c == sep and depth == 0:
            out.append("".join(cur).strip())
            cur = []
        else:
            cur.append(c)
        i += 1
    last = "".join(cur).strip()
    if last:
        out.append(last)
    return out


_TERM_RE = re.compile(r"^(goto|switchInt|return|unreachable|resume|assert\(|drop\(|falseEdge|falseUnwind|unwind )")


def parse_mir(text):
    """returns {name: [Fn,...]} (a name can be printed more than once, e.g. promoted consts are skipped)"""
    fns = {}
    cur = None
    blk = None
    lines = text.split("\n")
    for lineno, ln in enumerate(lines, 1):
        if cur is None:
            mc = re.match(r"^const ([\w:]+): (.+?) = const (.+);$", ln)
            if mc:
                CONST_ITEMS[mc.group(1).split("::")[-1]] = mc.group(3)
                continue
            if (ln.startswith("const ") or ln.startswith("static ")) and ln.rstrip().endswith("= {"):
                # promoted constant / const item / static: a parameterless body that computes the value
                hdr = ln.split(" ", 1)[1].rstrip()[:-3].rstrip()
                if hdr.startswith("mut "):
                    hdr = hdr[4:]
                if "::promoted[" in hdr:
                    k = hdr.index("]: ") + 1
                else:
                    k = hdr.index(": ")
                cur = Fn(hdr[:k], [], hdr[k + 2:].strip(), lineno)
                fns.setdefault(cur.name, []).append(cur)
                blk = None
                continue
            if ln.startswith("fn ") and ln.rstrip().endswith("{"):
                hdr = ln[3:].rstrip()[:-1].rstrip()
                depth = 0
                k = 0
                for k, c in enumerate(hdr):
                    if c == "<":
                        depth += 1
                    elif c == ">" and hdr[k - 1] != "-":
                        depth -= 1
                    elif c == "(" and depth == 0:
                        break
                name = hdr[:k]
                d = 0
                j = k
                for j in range(k, len(hdr)):
                    if hdr[j] == "(":
                        d += 1
                    elif hdr[j] == ")":
                        d -= 1
                        if d == 0:
                            break
                params = []
                for p in split_top(hdr[k + 1:j]):
                    a, b = p.split(":", 1)
                    params.append((a.strip(), b.strip()))
                ret = hdr[j + 1:].strip()
                ret = ret[2:].strip() if ret.startswith("->") else "()"
                cur = Fn(name, params, ret, lineno)
                fns.setdefault(name, []).append(cur)
                for a, b in params:
                    cur.locals[a] = b
                blk = None
            continue
        if ln.startswith("}"):
            cur = None
            continue
        s = ln.strip()
        if not s:
            continue
        m = re.match(r"^let (mut )?(_\d+): (.+);$", s)
        if m:
            cur.locals[m.group(2)] = m.group(3)
            continue
        m = re.match(r"^(bb\d+)( \(cleanup\))?: \{$", s)
        if m:
            blk = Block(bool(m.group(2)))
            cur.blocks[m.group(1)] = blk
            continue
        if s == "}":
            continue
        if blk is None or s.startswith(("debug ", "scope ", "StorageLive", "StorageDead", "//", "let ")):
            continue
        st = s[:-1] if s.endswith(";") else s
        if _TERM_RE.match(st) or " -> [return: " in st or st.endswith("-> unwind continue") or " -> unwind" in st and "(" in st and " = " in st or re.search(r" = .*\) -> bb\d+$", st, re.S):
            blk.term = st
        else:
            blk.stmts.append(st)
    return fns


# ---------------------------------------------------------------------------------------------------- types

@lru_cache(maxsize=None)
def base_ty(ty):
    """last path segment of a type with generic arguments removed: 'values::Value<R>' -> 'Value'"""
    ty = ty.strip()
    while ty.startswith("&"):
        ty = re.sub(r"^&('\w+ )?(mut )?", "", ty).strip()
    out = []
    d = 0
    for i, c in enumerate(ty):
        if c == "<":
            d += 1
        elif c == ">" and ty[i - 1] != "-":
            d -= 1
        elif d == 0:
            out.append(c)
    out = "".join(out)
    segs = [x for x in out.split("::") if x.strip()]
    return segs[-1].strip() if segs else ty


@lru_cache(maxsize=None)
def strip_turbofish(c):
    out = []
    i = 0
    n = len(c)
    while i < n:
        if c.startswith("::<", i):
            d = 0
            j = i + 2
            while j < n:
                if c[j] == "<":
                    d += 1
                elif c[j] == ">" and c[j - 1] != "-":
                    d -= 1
                    if d == 0:
                        break
                j += 1
            if c.startswith("::<impl ", i) and c.startswith("::", j + 1):
                # a path segment `<impl Type>::method` (inherent impl), not generic arguments: keep it
                out.append(c[i:j + 1])
                i = j + 1
                continue
            i = j + 1
        else:
            out.append(c[i])
            i += 1
    return "".join(out)


@lru_cache(maxsize=None)
def generic_args(ty):
    """top-level generic arguments of the last segment: 'Result<A, B>' -> ['A','B']"""
    ty = ty.strip()
    i = ty.find("<")
    if i < 0 or not ty.endswith(">"):
        return []
    # find the '<' matching the final '>'
    d = 0
    for j in range(len(ty) - 1, -1, -1):
        c = ty[j]
        if c == ">" and ty[j - 1] != "-":
            d += 1
        elif c == "<":
            d -= 1
            if d == 0:
                return split_top(ty[j + 1:-1])
    return []


ENUMS = {
    "Option": ["None", "Some"],
    "Result": ["Ok", "Err"],
    "ControlFlow": ["Continue", "Break"],
    "Ordering": ["Less", "Equal", "Greater"],
    "Either": ["Left", "Right"],
}
CONST_ITEMS = {}        # simple const items printed inline in the dump: name -> literal text
ENUM_FIELD_TYPES = {}   # (enum, variant) -> [type strings]  (crate enums, read from source)
STRUCTS = {}            # struct name -> [(field name|None, type)]
ORDERING_DISCR = {"Less": -1, "Equal": 0, "Greater": 1}
TYPE_ALIASES = {}


def _strip_comments(t):
    # remove // comments but not inside string literals (good enough for declarations)
    return re.sub(r"//[^\n]*", "", t)


def parse_decls(srcdir):
    """read enum variant order (= discriminant order) and struct field lists from the crate's sources"""
    for root, _, files in os.walk(srcdir):
        for f in sorted(files):
            if not f.endswith(".rs"):
                continue
            t = _strip_comments(open(os.path.join(root, f)).read())
            for m in re.finditer(r"\benum\s+(\w+)\s*(<[^{]*>)?[^{;]*\{", t):
                name = m.group(1)
                body = _balanced(t, m.end() - 1)
                body = re.sub(r"#\[[^\]]*\]", "", body)
                vs = []
                for p in split_top(body):
                    mm = re.match(r"\s*(\w+)\s*(.*)$", p, re.S)
                    if not mm:
                        continue
                    vs.append(mm.group(1))
                    rest = mm.group(2).strip()
                    if rest.startswith("("):
                        ENUM_FIELD_TYPES[(name, mm.group(1))] = [re.sub(r"/\*.*?\*/", "", x).strip() for x in split_top(rest[1:rest.rindex(")")])]
                    elif rest.startswith("{"):
                        ENUM_FIELD_TYPES[(name, mm.group(1))] = [x.split(":", 1)[1].strip() for x in split_top(rest[1:rest.rindex("}")])]
                    else:
                        ENUM_FIELD_TYPES[(name, mm.group(1))] = []
                ENUMS[name] = vs
            for m in re.finditer(r"\bstruct\s+(\w+)\s*(<[^{(;]*>)?\s*(\(|\{)", t):
                name = m.group(1)
                body = _balanced(t, m.end() - 1)
                body = re.sub(r"#\[[^\]]*\]", "", body)
                fs = []
                for p in split_top(body):
                    p = re.sub(r"^\s*pub(\([^)]*\))?\s+", "", p.strip())
                    if m.group(3) == "{":
                        if ":" in p:
                            a, b = p.split(":", 1)
                            fs.append((a.strip(), b.strip()))
                    else:
                        fs.append((None, p.strip()))
                STRUCTS[name] = fs
            for m in re.finditer(r"\btype\s+(\w+)\s*(<[^=]*>)?\s*=\s*([^;]+);", t):
                TYPE_ALIASES[m.group(1)] = m.group(3).strip()


def _balanced(t, i):
    """text between the bracket at t[i] and its match"""
    op = t[i]
    cl = {"{": "}", "(": ")"}[op]
    d = 0
    j = i
    while j < len(t):
        c = t[j]
        if c == op:
            d += 1
        elif c == cl:
            d -= 1
            if d == 0:
                return t[i + 1:j]
        j += 1
    return t[i + 1:]


def has_drop_impl(srcdir):
    for root, _, files in os.walk(srcdir):
        for f in files:
            if f.endswith(".rs"):
                t = _strip_comments(open(os.path.join(root, f)).read())
                if re.search(r"\bimpl\b[^{;]*\bDrop\s+for\b", t):
                    return os.path.join(root, f)
    return None


INT_RANGES = {
    "i32": (-2**31, 2**31 - 1), "i64": (-2**63, 2**63 - 1), "isize": (-2**63, 2**63 - 1),
    "usize": (0, 2**64 - 1), "u64": (0, 2**64 - 1), "u32": (0, 2**32 - 1), "u8": (0, 255),
    "i8": (-128, 127), "i16": (-2**15, 2**15 - 1), "u16": (0, 2**16 - 1), "u128": (0, 2**128 - 1), "i128": (-2**127, 2**127 - 1),
}
