"""mirsym core: a path-enumerating symbolic executor over rustc MIR text, with z3 as the deciding engine.

Every branch is kept only if the solver finds it feasible; obligations are discharged by the harness
while the path condition of the path under consideration is on the solver stack.
"""
import itertools
import os
import re
import time
from functools import lru_cache

import z3

from .mir import (CONST_ITEMS, ENUMS, ENUM_FIELD_TYPES, STRUCTS, ORDERING_DISCR, INT_RANGES, TYPE_ALIASES, base_ty, generic_args,
                  split_top, strip_turbofish)


# ------------------------------------------------------------------------------------------------ exceptions
class Unsupported(Exception):
    """the encoder met something it has no sound treatment for: the check is inconclusive (exit 2)"""


class Inconclusive(Exception):
    pass


class NoModel(Exception):
    pass


class PanicExc(Exception):
    def __init__(self, msg):
        Exception.__init__(self, msg)
        self.msg = msg


# ------------------------------------------------------------------------------------------------ values
class Adt:
    """enum value with a concrete variant, or struct value (variant None); immutable"""
    __slots__ = ("ty", "variant", "fields")

    def __init__(self, ty, variant, fields):
        self.ty = ty
        self.variant = variant
        self.fields = tuple(fields)

    def __repr__(self):
        return "%s::%s%s" % (self.ty, self.variant, list(self.fields)) if self.variant else "%s%s" % (self.ty, list(self.fields))


class Tup:
    __slots__ = ("items",)

    def __init__(self, items):
        self.items = tuple(items)

    def __repr__(self):
        return "Tup%s" % (list(self.items),)


class Cell:
    __slots__ = ("v", "name")

    def __init__(self, v=None, name=None):
        self.v = v
        self.name = name

    def __repr__(self):
        return "Cell#%x(%s)" % (id(self) & 0xffff, self.name or "")


class Ref:
    """pointer = cell + projection path; Box/Rc/&/&mut are all modelled by it (identity = the cell)"""
    __slots__ = ("cell", "path")

    def __init__(self, cell, path=()):
        self.cell = cell
        self.path = tuple(path)

    def __repr__(self):
        return "Ref(%r%s)" % (self.cell, "".join("." + str(p[1]) for p in self.path))


class Opaque:
    n = 0

    def __init__(self, ty, tag=""):
        Opaque.n += 1
        self.ty = ty
        self.id = Opaque.n
        self.tag = tag

    def __repr__(self):
        return "<opaque %s#%d %s>" % (base_ty(self.ty) if self.ty else "?", self.id, self.tag)


class Lazy:
    """an arbitrary input value of a crate type: symbolic variant tag, fields materialised on first projection.
    Field constants are named deterministically from the object's name, so the same field is the same solver
    constant on every path."""
    __slots__ = ("ty", "name", "tag", "pv", "fields", "meta")

    def __init__(self, ty, name):
        self.ty = ty
        self.name = name
        self.tag = None
        self.pv = {}
        self.fields = {}
        self.meta = {}

    def __repr__(self):
        return "<lazy %s %s>" % (base_ty(self.ty), self.name)


class SeqObj:
    """Vec / SmallVec / slice / array: identity object; slot cells; length is a python int or a z3 Int"""

    def __init__(self, name, elem_ty, items, ln, maxlen):
        self.name = name
        self.elem_ty = elem_ty
        self.items = items          # list of Cell, len == maxlen (slots past ln are unused)
        self.ln = ln
        self.max = maxlen
        self.meta = {}

    def __repr__(self):
        return "<seq %s len=%s max=%d>" % (self.name, self.ln, self.max)


class IterObj:
    """iterator state: identity object; kinds: seq (by value / by ref), map, filter, skip, peekable, chars, pairlist"""

    def __init__(self, kind, **kw):
        self.kind = kind
        self.__dict__.update(kw)

    def __repr__(self):
        return "<iter %s>" % self.kind


class MapObj:
    """HashMap / HashSet: list of entries [key StrVal|value, present z3 Bool, Cell]; distinct entries hold distinct keys"""

    def __init__(self, name, is_set=False):
        self.name = name
        self.entries = []
        self.is_set = is_set
        self.meta = {}

    def __repr__(self):
        return "<%s %s>" % ("set" if self.is_set else "map", self.name)


class StrVal:
    """String / &str: a z3 String term (concrete literals are z3 string values)"""
    __slots__ = ("t",)

    def __init__(self, t):
        self.t = z3.StringVal(t) if isinstance(t, str) else t

    def concrete(self):
        return self.t.as_string() if z3.is_string_value(self.t) else None

    def __repr__(self):
        c = self.concrete()
        return "str:%r" % c if c is not None else "str:<%s>" % self.t


class CharStr:
    """a String held as the list of its characters (z3 Int code points); used where the text is built character by
    character (the lexer), so that lengths are concrete on every path and no string theory is needed"""
    __slots__ = ("chars",)

    def __init__(self, chars=()):
        self.chars = tuple(chars)

    def __repr__(self):
        return "chars:%d" % len(self.chars)


class Closure:
    __slots__ = ("key", "captures", "parent")

    def __init__(self, key, captures, parent=None):
        self.key = key
        self.captures = tuple(captures)
        self.parent = parent        # name of the MIR function that created it (macro-generated closures share spans)

    def __repr__(self):
        return "<closure %s %d caps>" % (self.key, len(self.captures))


class Transparent:
    """MaybeUninit / ManuallyDrop / MaybeDangling wrappers: every field projection leads to the same single slot"""

    def __init__(self, v=None):
        self.v = v

    def __repr__(self):
        return "<transparent %r>" % (self.v,)


class FnPtr:
    def __init__(self, name):
        self.name = name

    def __repr__(self):
        return "<fn %s>" % self.name


# ------------------------------------------------------------------------------------------------ trail
TRAIL = []
_MISSING = object()


def tset(obj, attr, val):
    TRAIL.append((obj, attr, None, getattr(obj, attr)))
    setattr(obj, attr, val)


def tput(d, key, val):
    TRAIL.append((d, None, key, d.get(key, _MISSING)))
    d[key] = val


def tappend(lst, val):
    TRAIL.append((lst, "__append__", None, None))
    lst.append(val)


def undo(mark):
    while len(TRAIL) > mark:
        obj, attr, key, old = TRAIL.pop()
        if attr == "__append__":
            obj.pop()
        elif attr is None:
            if old is _MISSING:
                obj.pop(key, None)
            else:
                obj[key] = old
        else:
            setattr(obj, attr, old)


# ------------------------------------------------------------------------------------------------ solver context
class Ctx:
    def __init__(self, timeout_ms=30000, seed=0):
        self.z = z3.Solver()
        self.timeout_ms = min(timeout_ms, int(os.environ.get("VERIF_Z3_TIMEOUT_MS", "8000")))
        self.fp_feasibility_ms = int(os.environ.get("VERIF_Z3_FP_FEAS_MS", "2500"))
        self.z.set("timeout", self.timeout_ms)
        try:
            self.z.set("random_seed", seed % (2**31))
        except Exception:
            pass
        self.globals = []
        self.marks = []
        self.levels = [[]]
        self.portfolio = ((1, 10000),)          # fresh-solver retries (seed, timeout ms) after an incremental 'unknown'
        self.portfolio_cvc5 = False
        self.stats = {"checks": 0, "solver_s": 0.0, "unknown": 0}

    def push(self):
        self.z.push()
        self.marks.append(len(self.globals))
        self.levels.append([])

    def pop(self):
        self.z.pop()
        m = self.marks.pop()
        self.levels.pop()
        for c in self.globals[m:]:
            self.z.add(c)

    def add(self, *cs):
        for c in cs:
            if c is True:
                continue
            if c is False:
                c = z3.BoolVal(False)
            self.z.add(c)
            self.levels[-1].append(c)

    def add_global(self, *cs):
        """definitional / type-range facts about lazily created constants: survive pops"""
        for c in cs:
            self.globals.append(c)
            self.z.add(c)

    def check(self, *extra):
        t = time.time()
        self.stats["checks"] += 1
        r = self.z.check(*extra)
        self._last_model = None
        if r == z3.unknown:
            r = self._portfolio(extra)
        self.stats["solver_s"] += time.time() - t
        if r == z3.unknown:
            self.stats["unknown"] += 1
        return r

    def _portfolio(self, extra):
        """the incremental solver gave up (NIA heuristics are sensitive to its history): retry the same assertions
        in fresh solver instances with other seeds, then with cvc5; only a definite answer is accepted"""
        self.stats["portfolio"] = self.stats.get("portfolio", 0) + 1
        asserts = list(self.z.assertions()) + list(extra)
        for k, (seed, tmo) in enumerate(self.portfolio):
            s = z3.Solver()
            s.set("timeout", tmo)
            s.set("random_seed", seed)
            s.add(*asserts)
            r = s.check()
            if r != z3.unknown:
                self.stats["portfolio_ok"] = self.stats.get("portfolio_ok", 0) + 1
                if r == z3.sat:
                    self._last_model = s.model()
                return r
        if not self.portfolio_cvc5:
            return z3.unknown
        try:
            import subprocess
            s = z3.Solver()
            s.add(*asserts)
            txt = "(set-logic ALL)\n" + s.to_smt2()
            p = subprocess.run(["cvc5", "--lang", "smt2", "--tlimit=60000"], input=txt.encode(), stdout=subprocess.PIPE, stderr=subprocess.PIPE, timeout=90)
            out = p.stdout.decode().strip().split("\n")[0]
            if out == "unsat":
                self.stats["portfolio_ok"] = self.stats.get("portfolio_ok", 0) + 1
                return z3.unsat
            # a cvc5 'sat' carries no model we can read back: not used
        except Exception:
            pass
        return z3.unknown

    def feasible(self):
        """light-weight: an undecided feasibility query is treated as feasible (over-approximation: sound for every
        'holds' verdict, and a later sat model of the whole path condition is still a real model)"""
        t = time.time()
        self.stats["checks"] += 1
        fp = self._has_fp()
        # after a few undecided feasibility queries (typically a loop over nonlinear terms) the following ones get a short
        # timeout and no retry: undecided = assumed feasible, which is sound, and the path budget in Executor.branches ends
        # such paths as truncated (= inconclusive, never a pass)
        tired = self.stats.get("assumed_feasible", 0) >= 3
        self.last_unknown = False
        if fp:
            self.z.set("timeout", self.fp_feasibility_ms)
        elif tired:
            self.z.set("timeout", 2000)
        r = self.z.check()
        if fp or tired:
            self.z.set("timeout", self.timeout_ms)
        self._last_model = None
        if r == z3.unknown and not fp and not tired:
            s = z3.Solver()
            s.set("timeout", 10000)
            s.set("random_seed", 11)
            s.add(*self.z.assertions())
            r = s.check()
        self.stats["solver_s"] += time.time() - t
        if r == z3.unknown:
            self.stats["assumed_feasible"] = self.stats.get("assumed_feasible", 0) + 1
            self.last_unknown = True
            return True
        return r == z3.sat

    def check_light(self):
        t = time.time()
        self.stats["checks"] += 1
        r = self.z.check()
        self._last_model = None
        self.stats["solver_s"] += time.time() - t
        return r

    def _has_fp(self):
        for lv in self.levels[-3:]:
            for c in lv:
                if "fp." in c.sexpr():
                    return True
        return False

    def feasible_strict(self):
        r = self.check()
        if r == z3.unknown and os.environ.get("VERIF_DUMP_UNKNOWN"):
            open(os.path.join(os.environ["VERIF_DUMP_UNKNOWN"], "unknown_%d.smt2" % self.stats["checks"]), "w").write(self.smt2())
        if r == z3.unknown:
            raise Inconclusive("solver returned unknown on a feasibility query: %s" % self.z.reason_unknown())
        return r == z3.sat

    def path_condition(self):
        return [c for lv in self.levels for c in lv]

    def model(self):
        return self._last_model if getattr(self, "_last_model", None) is not None else self.z.model()

    def smt2(self, extra=()):
        s = z3.Solver()
        for c in self.z.assertions():
            s.add(c)
        for c in extra:
            s.add(c)
        return s.to_smt2()


def is_z3(v):
    return isinstance(v, z3.ExprRef)


def zint(v):
    return z3.IntVal(v) if isinstance(v, int) else v


def i32_to_f32(t):
    """i32 -> binary32, round to nearest even; through a 32-bit vector (what z3 decides well)"""
    if isinstance(t, int):
        return z3.fpToFP(z3.RNE(), z3.RealVal(t), z3.Float32())
    t = z3.simplify(t)
    if z3.is_int_value(t):
        return z3.fpToFP(z3.RNE(), z3.RealVal(t.as_long()), z3.Float32())
    return z3.fpSignedToFP(z3.RNE(), z3.Int2BV(t, 32), z3.Float32())


def wrap(v, lo, hi):
    if isinstance(v, int):
        n = hi - lo + 1
        return ((v - lo) % n) + lo
    n = hi - lo + 1
    return z3.If(z3.And(v >= lo, v <= hi), v, ((v - lo) % n) + lo)


def conc_int(v):
    """python int if v is a concrete integer, else None"""
    if isinstance(v, int):
        return v
    if is_z3(v):
        v = z3.simplify(v)
        if z3.is_int_value(v):
            return v.as_long()
    return None


def conc_bool(v):
    if isinstance(v, bool):
        return v
    if is_z3(v):
        v = z3.simplify(v)
        if z3.is_true(v):
            return True
        if z3.is_false(v):
            return False
    return None


# ------------------------------------------------------------------------------------------------ place parsing
@lru_cache(maxsize=None)
def parse_place(p):
    p = p.strip()
    if re.match(r"^_\d+$", p):
        return ("local", p)
    if p.startswith("*"):
        return ("deref", parse_place(p[1:]))
    if p.endswith("]"):
        # index projection  base[_i]  /  base[N of M]   (the base may be parenthesised and contain array types like [u32; 2])
        d = 0
        j = len(p) - 1
        while j >= 0:
            if p[j] == "]":
                d += 1
            elif p[j] == "[":
                d -= 1
                if d == 0:
                    break
            j -= 1
        base = p[:j]
        if base and base.count("(") == base.count(")"):
            return ("index", parse_place(base), p[j + 1:-1].strip())
    if p.startswith("(") and p.endswith(")"):
        # could be "(inner)" or "(inner)[..]" handled above; make sure the parens match each other
        d = 0
        for j, ch in enumerate(p):
            if ch == "(":
                d += 1
            elif ch == ")":
                d -= 1
                if d == 0:
                    break
        if j != len(p) - 1:
            raise Unsupported("place " + p)
        inner = p[1:-1].strip()
        if inner.startswith("*"):
            return ("deref", parse_place(inner[1:]))
        if inner.startswith("("):
            d = 0
            for j, ch in enumerate(inner):
                if ch == "(":
                    d += 1
                elif ch == ")":
                    d -= 1
                    if d == 0:
                        break
            base = inner[:j + 1]
            rest = inner[j + 1:]
            # a following index projection binds to the base
            while rest.startswith("["):
                k = rest.index("]")
                base = base + rest[:k + 1]
                rest = rest[k + 1:]
        else:
            m = re.match(r"^(_\d+(?:\[[^\]]*\])*)(.*)$", inner, re.S)
            if not m:
                raise Unsupported("place " + p)
            base, rest = m.group(1), m.group(2)
        m = re.match(r"^\s+as\s+(\w+)$", rest)
        if m:
            return ("downcast", parse_place(base), m.group(1))
        m = re.match(r"^\.(\d+):\s*(.*)$", rest, re.S)
        if m:
            return ("field", parse_place(base), int(m.group(1)), m.group(2).strip())
        if not rest.strip():
            return parse_place(base)
    raise Unsupported("place " + p)


@lru_cache(maxsize=None)
def split_call(callstr):
    """'callee(args)' -> (callee, [args]) splitting at the LAST balanced parenthesis group"""
    callstr = callstr.strip()
    d = 0
    j = len(callstr) - 1
    instr = False
    while j >= 0:
        c = callstr[j]
        if not instr and c == "'" and j >= 2 and callstr[j - 2] == "'":
            j -= 3          # a character literal such as '(' or ')'
            continue
        if not instr and c == "'" and j >= 3 and callstr[j - 3] == "'" and callstr[j - 2] == "\\":
            j -= 4          # an escaped character literal such as '\n'
            continue
        if c == '"' and (j == 0 or callstr[j - 1] != "\\"):
            instr = not instr
        elif not instr:
            if c == ")":
                d += 1
            elif c == "(":
                d -= 1
                if d == 0:
                    break
        j -= 1
    return callstr[:j].strip(), tuple(split_top(callstr[j + 1:-1]))


class Executor:
    def __init__(self, fns, srcdir, seed=0, timeout_ms=30000):
        self.fns = fns
        self.srcdir = srcdir            # path of the crate root (contains src/)
        self.ctx = Ctx(timeout_ms, seed)
        self.fresh = 0
        self.impl_cache = {}
        self.stubs = []                 # [(regex, fn(ex, callee, args, ret_ty))] harness-specific, highest priority
        self.models = []                # [(regex, fn)] std models
        self.events = []                # call log (trail-managed)
        self.panic_hook = None          # fn(info dict) called when a panic outcome is feasible
        self.panics = []
        self.stats = {"paths": 0, "fn_calls": 0, "stmts": 0, "max_depth": 0}
        self.loop_bound = 12
        self.truncated = []             # (fn, bb) where the loop bound cut exploration (=> inconclusive unless the harness says otherwise)
        self.max_depth = 40
        self.used_models = set()
        self.used_stubs = set()
        self.inlined = set()
        self.seq_max = 3
        self.use_fp = True
        self.divcache = {}
        self.closure_index = {}
        self.deadline = None
        self.path_unknowns = 0
        self.path_unknown_limit = 6
        self.recursion_limits = {}      # fn-name suffix -> max simultaneously active frames (harness assumption on input shape)
        self.active = {}
        self.cuts = {}
        self.byname_cache = {}
        self.generics_cache = {}
        self.resolve_cache = {}
        for name, lst in fns.items():
            if "{closure#" in name:
                for fn in lst:
                    m = re.search(r"\{closure@[^}]*\}", fn.params[0][1]) if fn.params else None
                    if m:
                        self.closure_index.setdefault(m.group(0), []).append(fn)
        from . import models
        models.install(self)

    # ---------------------------------------------------------------------------------------- fresh values
    def fresh_name(self, pfx):
        self.fresh += 1
        return "%s!%d" % (pfx, self.fresh)

    def fresh_int(self, pfx="v", ty=None, name=None):
        v = z3.Int(name or self.fresh_name(pfx))
        if ty:
            lo, hi = INT_RANGES[ty]
            self.ctx.add_global(v >= lo, v <= hi)
        return v

    def fresh_bool(self, pfx="b", name=None):
        return z3.Bool(name or self.fresh_name(pfx))

    def fresh_value(self, ty, name=None):
        """an arbitrary value of MIR type `ty` (lazily materialised for aggregates)"""
        ty = ty.strip()
        name = name or self.fresh_name("x")
        if ty in INT_RANGES:
            return self.fresh_int(ty=ty, name=name)
        if ty == "bool":
            return z3.Bool(name)
        if ty == "char":
            v = z3.Int(name)
            self.ctx.add_global(z3.Or(z3.And(v >= 0, v <= 0xD7FF), z3.And(v >= 0xE000, v <= 0x10FFFF)))
            return v
        if ty in ("R", "f32"):
            return z3.FP(name, z3.Float32()) if self.use_fp else Opaque("R", name)
        if ty == "()":
            return Tup([])
        if ty.startswith("&"):
            inner = re.sub(r"^&('\w+ )?(mut )?", "", ty)
            if inner == "str":
                return StrVal(z3.String(name))
            if inner.startswith("["):
                return self.fresh_value("Vec<%s>" % inner[1:-1].split(";")[0], name)
            return Ref(Cell(self.fresh_value(inner, name), name))
        b = base_ty(ty)
        if b in ("String",) or ty == "str":
            return StrVal(z3.String(name))
        if b in ("Box", "Rc"):
            ga = generic_args(ty)
            inner = ga[0] if ga else "?"
            if inner.startswith("["):
                return self.fresh_value("Vec<%s>" % inner[1:-1], name)
            return Ref(Cell(self.fresh_value(inner, name), name))
        if b == "RefCell":
            ga = generic_args(ty)
            return self.fresh_value(ga[0] if ga else "?", name)         # RefCell<T> is modelled by its content
        if b in ("HashMap", "HashSet"):
            m = MapObj(name, is_set=(b == "HashSet"))
            ga = generic_args(ty)
            m.meta["arbitrary"] = True          # an input map of unknown contents: entries are materialised on first lookup
            m.meta["val_ty"] = ga[1] if len(ga) > 1 else "()"
            return m
        if b in ("Vec", "SmallVec", "VecDeque") or ty.startswith("["):
            if ty.startswith("["):
                et = ty[1:-1].split(";")[0].strip()
            else:
                ga = generic_args(ty)
                et = ga[0] if ga else "?"
                if et.startswith("["):
                    et = et[1:-1].split(";")[0].strip()
            return self.fresh_seq(name, et)
        if ty.startswith("(") and ty.endswith(")"):
            return Tup([self.fresh_value(t, "%s.%d" % (name, i)) for i, t in enumerate(split_top(ty[1:-1]))])
        if b == "PhantomData":
            return Tup([])
        if b in TYPE_ALIASES and b not in ENUMS and b not in STRUCTS:
            return self.fresh_value(TYPE_ALIASES[b], name)
        return Lazy(ty, name)

    def fresh_seq(self, name, elem_ty, maxlen=None, ln=None):
        maxlen = self.seq_max if maxlen is None else maxlen
        if ln is None:
            ln = z3.Int(name + ".len")
            self.ctx.add_global(ln >= 0, ln <= maxlen)
        seq = SeqObj(name, elem_ty, [Cell(None, "%s[%d]" % (name, i)) for i in range(maxlen)], ln, maxlen)
        seq.meta["lazy_elems"] = True
        return seq

    def seq_item(self, seq, i):
        c = seq.items[i]
        if c.v is None and seq.meta.get("lazy_elems"):
            c.v = self.fresh_value(seq.elem_ty, "%s[%d]" % (seq.name, i))   # deterministic: not trail-managed on purpose
        return c

    def lazy_tag(self, v):
        if v.tag is None:
            b = base_ty(v.ty)
            if b not in ENUMS:
                raise Unsupported("discriminant of non-enum lazy value " + repr(v))
            v.tag = z3.Int(v.name + ".tag")
            self.ctx.add_global(v.tag >= 0, v.tag < len(ENUMS[b]))
        return v.tag

    def variant_index(self, v):
        """z3 Int (or python int) variant index of an enum value"""
        if isinstance(v, Adt):
            return ENUMS[v.ty].index(v.variant)
        if isinstance(v, Lazy):
            return self.lazy_tag(v)
        raise Unsupported("variant_index of " + repr(v))

    def is_variant(self, v, variant):
        if isinstance(v, Adt):
            return z3.BoolVal(v.variant == variant)
        if isinstance(v, Lazy):
            return self.lazy_tag(v) == ENUMS[base_ty(v.ty)].index(variant)
        raise Unsupported("is_variant of " + repr(v))

    def field_type(self, owner_ty, variant, idx, hint):
        return hint

    # ---------------------------------------------------------------------------------------- memory
    def load(self, r):
        if not isinstance(r, Ref):
            raise Unsupported("load through non-reference " + repr(r))
        v = r.cell.v
        for step in r.path:
            v = self.project(v, step)
        return v

    def deref(self, v):
        """follow references until a non-reference value"""
        while isinstance(v, Ref):
            v = self.load(v)
        return v

    def deref1(self, v):
        return self.load(v) if isinstance(v, Ref) else v

    def store(self, r, val):
        if not r.path:
            tset(r.cell, "v", val)
        else:
            tset(r.cell, "v", self.update_path(r.cell.v, r.path, val))

    def project(self, b, step):
        k = step[0]
        if k == "d":
            return ("DC", b, step[1])
        if k == "i":
            seq = self.deref(b) if isinstance(b, Ref) else b
            if isinstance(seq, SeqObj):
                return self.seq_item(seq, step[1]).v
            raise Unsupported("index into " + repr(b))
        _, idx, ty = step
        if isinstance(b, tuple) and b and b[0] == "DC":
            _, e, var = b
            if isinstance(e, Adt):
                if e.variant != var:
                    raise Unsupported("downcast %s of %r" % (var, e))
                return e.fields[idx]
            if isinstance(e, Lazy):
                fl = e.pv.setdefault(var, {})
                if idx not in fl:
                    if ty in ("?", "", None):
                        # payload type from the owner's own type when the projection carries none
                        ga = generic_args(e.ty)
                        b = base_ty(e.ty)
                        if b == "Option" and ga:
                            ty = ga[0]
                        elif b == "Result" and len(ga) == 2:
                            ty = ga[0] if var == "Ok" else ga[1]
                        elif (b, var) in ENUM_FIELD_TYPES and idx < len(ENUM_FIELD_TYPES[(b, var)]):
                            ty = ENUM_FIELD_TYPES[(b, var)][idx]
                    fl[idx] = self.fresh_value(ty, "%s.%s.%d" % (e.name, var, idx))
                return fl[idx]
            raise Unsupported("downcast of " + repr(e))
        if isinstance(b, Transparent):
            return b
        if isinstance(b, Tup):
            return b.items[idx]
        if isinstance(b, Adt):
            return b.fields[idx]
        if isinstance(b, Closure):
            return b.captures[idx]
        if isinstance(b, Lazy):
            if idx not in b.fields:
                b.fields[idx] = self.fresh_value(ty, "%s.%d" % (b.name, idx))
            return b.fields[idx]
        if isinstance(b, Ref) and idx == 0:
            # Box<T>/Rc<T>/NonNull newtype peeled by field access: keep the pointer
            return b
        raise Unsupported("project %r by %r" % (b, step))

    def update_path(self, v, path, val):
        if not path:
            return val
        step = path[0]
        if step[0] == "d":
            if len(path) < 2 or path[1][0] != "f":
                raise Unsupported("write through bare downcast")
            idx, ty = path[1][1], path[1][2]
            child = self.project(("DC", v, step[1]), path[1]) if len(path) > 2 else None
            newchild = self.update_path(child, path[2:], val)
            if isinstance(v, Adt):
                fs = list(v.fields)
                fs[idx] = newchild
                return Adt(v.ty, v.variant, fs)
            if isinstance(v, Lazy):
                tput(v.pv.setdefault(step[1], {}), idx, newchild)
                return v
            raise Unsupported("variant field write into " + repr(v))
        if step[0] == "i":
            seq = self.deref(v) if isinstance(v, Ref) else v
            c = self.seq_item(seq, step[1])
            tset(c, "v", self.update_path(c.v, path[1:], val))
            return v
        if isinstance(v, Transparent):
            rest = [st for st in path if st[0] != "f"]
            if rest:
                raise Unsupported("non-field write through a MaybeUninit wrapper")
            tset(v, "v", val)
            return v
        idx = step[1]
        child = self.project(v, step) if len(path) > 1 else None
        newchild = self.update_path(child, path[1:], val)
        if isinstance(v, Tup):
            it = list(v.items)
            it[idx] = newchild
            return Tup(it)
        if isinstance(v, Adt):
            fs = list(v.fields)
            fs[idx] = newchild
            return Adt(v.ty, v.variant, fs)
        if isinstance(v, Closure):
            cs = list(v.captures)
            cs[idx] = newchild
            return Closure(v.key, cs)
        if isinstance(v, Lazy):
            tput(v.fields, idx, newchild)
            return v
        if v is None:
            raise Unsupported("field write into uninitialised aggregate")
        raise Unsupported("field write into " + repr(v))

    def place_ref(self, fr, pl):
        k = pl[0]
        if k == "local":
            return Ref(fr[pl[1]])
        if k == "deref":
            inner = self.place_ref(fr, pl[1])
            r = self.load(inner)
            if isinstance(r, Ref):
                return r
            if isinstance(r, (SeqObj, MapObj, StrVal, CharStr)):
                # a harness object standing directly where the code holds a reference to it (&Vec<T> / &[T] / &str): the
                # reference and the object coincide
                return inner
            raise Unsupported("deref of non-reference %r in %s" % (r, pl))
        if k == "field":
            r = self.place_ref(fr, pl[1])
            return Ref(r.cell, r.path + (("f", pl[2], pl[3]),))
        if k == "downcast":
            r = self.place_ref(fr, pl[1])
            return Ref(r.cell, r.path + (("d", pl[2]),))
        if k == "index":
            r = self.place_ref(fr, pl[1])
            seq = self.load(r)
            seq = self.deref(seq)
            idx = pl[2]
            if re.match(r"^_\d+$", idx):
                iv = conc_int(fr[idx].v)
            else:
                m = re.match(r"^(\d+) of \d+$", idx)
                iv = int(m.group(1)) if m else None
            if iv is None and isinstance(seq, SeqObj) and re.match(r"^_\d+$", idx):
                # symbolic index into a table of scalars (read-only): an if-then-else chain over the entries; the bounds
                # check is a separate MIR assert in front of the access
                n = seq.ln if isinstance(seq.ln, int) else conc_int(seq.ln)
                ix = fr[idx].v
                if n is not None and n <= 512:
                    vals = [self.seq_item(seq, j).v for j in range(n)]
                    if vals and all(is_z3(v) for v in vals):
                        e = vals[-1]
                        for j in range(n - 2, -1, -1):
                            e = z3.If(ix == j, vals[j], e)
                        return Ref(Cell(e, "table_read"))
            if iv is None or not isinstance(seq, SeqObj):
                raise Unsupported("symbolic index projection %r into %r" % (pl, seq))
            return Ref(self.seq_item(seq, iv))
        raise Unsupported("place kind " + repr(pl))

    def read_place(self, fr, pl):
        if pl[0] == "local":
            v = fr[pl[1]].v
            if v is None:
                raise Unsupported("read of uninitialised local " + pl[1])
            return v
        return self.load(self.place_ref(fr, pl))

    def write_place(self, fr, pl, val):
        if pl[0] == "local":
            tset(fr[pl[1]], "v", val)
        else:
            self.store(self.place_ref(fr, pl), val)

    # ---------------------------------------------------------------------------------------- operands
    def operand(self, fr, o):
        o = o.strip()
        if o.startswith("copy ") or o.startswith("move "):
            pl = parse_place(o[5:])
            v = self.read_place(fr, pl)
            if o.startswith("copy ") and isinstance(v, SeqObj) and isinstance(v.ln, int):
                # an array ([T; N]) is a Copy VALUE: copying it makes a new value (harness objects standing for Vec / slices behind
                # references are never array-typed places)
                ty = None
                if pl[0] == "local":
                    fobj = fr.get("__f")
                    ty = fobj.v.locals.get(pl[1]) if fobj is not None and fobj.v is not None else None
                elif pl[0] == "field" and len(pl) > 3:
                    ty = pl[3]
                if ty and re.match(r"^\[.+; *\w+\]$", ty.strip()):
                    return SeqObj(self.fresh_name(v.name + "_copy"), v.elem_ty, [Cell(c.v) for c in v.items], v.ln, v.max)
            return v
        if o.startswith("const "):
            m = re.search(r"::(promoted\[\d+\])$", o)
            if m:
                name = fr["__fn"].v + "::" + m.group(1)
                lst = self.fns.get(name)
                if not lst:
                    raise Unsupported("promoted constant %s not found" % name)
                for v in self.run(lst[0], [], 1):
                    return v
                raise Unsupported("promoted constant %s has no value" % name)
            v = self.const(o[6:].strip())
            if isinstance(v, Opaque) and v.ty == "const" and re.match(r"^[\w:]+$", v.tag or ""):
                # a named const item: its body is printed in the dump
                nm = v.tag
                if nm.split("::")[-1] in CONST_ITEMS:
                    return self.const(CONST_ITEMS[nm.split("::")[-1]])
                cands = [fl[0] for k, fl in self.fns.items() if not fl[0].params and (k == nm or k.split("::")[-1] == nm.split("::")[-1])]
                cands = [c for c in cands if "promoted" not in c.name]
                if len(cands) == 1 and cands[0].blocks:
                    # const evaluation is concrete: its loops are not subject to the unwinding bound of the harness
                    saved = self.loop_bound
                    self.loop_bound = 1 << 16
                    try:
                        for val in self.run(cands[0], [], 1):
                            return val
                    finally:
                        self.loop_bound = saved
            if isinstance(v, Closure):
                v.parent = fr["__fn"].v
            return v
        if re.match(r"^[A-Za-z<][\w:<>, &']*::[\w<>:, &']+$", o) and not re.match(r"^_\d+", o):
            # a function item used as a value (e.g. iter.map(Self::f)): printed as its bare path
            return FnPtr(o)
        return self.read_place(fr, parse_place(o))

    def const(self, c):
        m = re.match(r"^(-?\d+)_(i32|i64|isize|usize|u32|u8|u64|i8|i16|u16|u128|i128)$", c)
        if m:
            return z3.IntVal(int(m.group(1)))
        if c == "true":
            return z3.BoolVal(True)
        if c == "false":
            return z3.BoolVal(False)
        if c == "()":
            return Tup([])
        if c.startswith("(") and c.endswith(")") and "," in c:
            return Tup([self.const(x.strip()) for x in split_top(c[1:-1])])
        m = re.match(r"^(?:core::|std::)?f(32|64)::(?:<impl f(?:32|64)>::)?(MAX_10_EXP|MIN_10_EXP|MAX_EXP|MIN_EXP|DIGITS|MANTISSA_DIGITS|RADIX)$", c)
        if m:
            table = {"32": {"MAX_10_EXP": 38, "MIN_10_EXP": -37, "MAX_EXP": 128, "MIN_EXP": -125, "DIGITS": 6, "MANTISSA_DIGITS": 24, "RADIX": 2},
                     "64": {"MAX_10_EXP": 308, "MIN_10_EXP": -307, "MAX_EXP": 1024, "MIN_EXP": -1021, "DIGITS": 15, "MANTISSA_DIGITS": 53, "RADIX": 2}}
            return z3.IntVal(table[m.group(1)][m.group(2)])
        m = re.match(r"^(i32|u32|usize|i64|u64|isize|u8)::(MIN|MAX)$", c)
        if m:
            lo, hi = INT_RANGES[m.group(1)]
            return z3.IntVal(lo if m.group(2) == "MIN" else hi)
        if c.startswith('"'):
            try:
                return StrVal(_unescape_rust(c[1:c.rindex('"')]))
            except Exception:
                return Opaque("str", c)
        if c.startswith('b"'):
            try:
                bs = _unescape_rust(c[2:c.rindex('"')])
                return Ref(Cell(SeqObj(self.fresh_name("bytes"), "u8", [Cell(z3.IntVal(ord(ch))) for ch in bs], len(bs), len(bs))))
            except Exception:
                return Opaque("bytes", c)
        if c.startswith("'"):
            body = c[1:c.rindex("'")]
            s = _unescape_rust(body)
            if len(s) == 1:
                return z3.IntVal(ord(s))
        m = re.match(r"^ZeroSized: (\{closure@[^}]*\})", c)
        if m:
            return Closure(m.group(1), [])
        m = re.match(r"^ZeroSized: fn\(.*\{(.+)\}$", c)
        if m:
            return FnPtr(m.group(1))
        m = re.match(r"^(-?[\d.]+(?:[eE][-+]?\d+)?)f32$", c)
        if m and self.use_fp:
            return z3.FPVal(float(m.group(1)), z3.Float32())
        m = re.match(r"^ZeroSized: (.+)$", c)
        if m:
            t = m.group(1)
            if base_ty(t) == "PhantomData":
                return Tup([])
            return FnPtr(t)
        # unit-like enum constants:  const Type::Number  /  const values::Type::Number
        m = re.match(r"^([\w:<>, ]+)::(\w+)$", c)
        if m and base_ty(m.group(1)) in ENUMS and m.group(2) in ENUMS[base_ty(m.group(1))]:
            return Adt(base_ty(m.group(1)), m.group(2), [])
        return Opaque("const", c)

    # ---------------------------------------------------------------------------------------- rvalues
    def rvalue(self, fr, rv, dest_ty):
        rv = rv.strip()
        if rv.startswith("no_retag "):
            rv = rv[9:]
        head = rv.split("(", 1)[0]
        if head in _BINOPS and rv.endswith(")"):
            args = [self.operand(fr, a) for a in split_top(rv[len(head) + 1:-1])]
            return self.binop(head, args, dest_ty)
        if rv.startswith("discriminant("):
            v = self.read_place(fr, parse_place(rv[13:-1]))
            return self.discriminant(v)
        if rv.startswith("&"):
            body = re.sub(r"^&(mut |raw const |raw mut |fake shallow |fake )?", "", rv)
            return self.place_ref(fr, parse_place(body))
        if rv.startswith("PtrMetadata(") or rv.startswith("Len("):
            v = self.deref(self.operand(fr, rv[rv.index("(") + 1:-1]))
            if isinstance(v, SeqObj):
                return zint(v.ln)
            raise Unsupported("PtrMetadata of " + repr(v))
        m = re.match(r"^(copy|move|const) (.+) as (.+?) \((\w+)(\(.*\))?\)$", rv, re.S)
        if m:
            v = self.operand(fr, m.group(1) + " " + m.group(2))
            kind = m.group(4)
            to = m.group(3).strip()
            if kind == "IntToInt":
                if to == "char":
                    return v
                lo, hi = INT_RANGES[to]
                return wrap(v, lo, hi)
            if kind in ("PointerCoercion", "Transmute", "PtrToPtr") or kind.startswith("Pointer"):
                if kind == "PointerCoercion" and "ClosureFnPointer" in (m.group(5) or "") or "ReifyFnPointer" in (m.group(5) or ""):
                    return v
                return v
            raise Unsupported("cast " + rv)
        if rv.startswith(("copy ", "move ", "const ")):
            return self.operand(fr, rv)
        if rv == "()":
            return Tup([])
        if rv.startswith("["):
            # array aggregate [a, b, c]  or repeat [x; N]
            inner = rv[1:-1]
            parts = split_top(inner, ";")
            if len(parts) == 2 and re.match(r"^\d+$|^const \d+_usize$", parts[1].strip()):
                n = int(re.search(r"\d+", parts[1]).group(0))
                x = self.operand(fr, parts[0])
                return SeqObj(self.fresh_name("arr"), "?", [Cell(x) for _ in range(n)], n, n)
            items = [self.operand(fr, a) for a in split_top(inner)]
            return SeqObj(self.fresh_name("arr"), "?", [Cell(x) for x in items], len(items), len(items))
        if rv.startswith("("):
            if re.match(r"^\((copy|move|const) ", rv):
                return Tup([self.operand(fr, a) for a in split_top(rv[1:-1])])
            return self.read_place(fr, parse_place(rv))
        m = re.match(r"^(\{closure@[^}]*\})\s*(\{(.*)\})?$", rv, re.S)
        if m:
            caps = []
            if m.group(3):
                caps = [self.operand(fr, f.split(":", 1)[1]) for f in split_top(m.group(3))]
            return Closure(m.group(1), caps, fr["__fn"].v)
        # enum variant / struct aggregates
        if rv.endswith("}") and "{" in rv and not rv.startswith("{"):
            j = _top_level_brace(rv)
            if j is not None:
                tyname = rv[:j].strip()
                fields = [self.operand(fr, f.split(":", 1)[1]) for f in split_top(rv[j + 1:-1])]
                mm = re.match(r"^(.*)::(\w+)$", strip_turbofish(tyname), re.S)
                if mm and base_ty(mm.group(1)) in ENUMS and mm.group(2) in ENUMS[base_ty(mm.group(1))]:
                    return Adt(base_ty(mm.group(1)), mm.group(2), fields)
                return Adt(base_ty(tyname), None, fields)
        head, argstr = rv, None
        if rv.endswith(")"):
            head, args_ = split_call(rv)
            argstr = args_
        mm = re.match(r"^(.*)::(\w+)$", strip_turbofish(head), re.S)
        if mm:
            ty = base_ty(mm.group(1))
            var = mm.group(2)
            if ty in ENUMS and var in ENUMS[ty]:
                args = [self.operand(fr, a) for a in argstr] if argstr else []
                return Adt(ty, var, args)
        if argstr is not None and base_ty(head) in STRUCTS:
            return Adt(base_ty(head), None, [self.operand(fr, a) for a in argstr])
        if argstr is None and base_ty(head) in STRUCTS and not STRUCTS[base_ty(head)]:
            return Adt(base_ty(head), None, [])
        if re.match(r"^\w+$", rv):
            owners = [e for e, vs in ENUMS.items() if rv in vs]
            if len(owners) == 1:
                return Adt(owners[0], rv, [])
            if "Ordering" in owners:
                return Adt("Ordering", rv, [])
            if re.match(r"^[A-Z]\w*$", rv) and not owners:
                # a unit variant of an enum that is not declared in this crate (e.g. termcolor's ColorChoice::Always): an opaque tag
                return Opaque("foreign enum", rv)
        raise Unsupported("rvalue " + rv)

    def discriminant(self, v):
        if isinstance(v, Adt):
            if v.ty == "Ordering":
                return z3.IntVal(ORDERING_DISCR[v.variant])
            return z3.IntVal(ENUMS[v.ty].index(v.variant))
        if isinstance(v, Lazy):
            t = self.lazy_tag(v)
            return t - 1 if base_ty(v.ty) == "Ordering" else t
        raise Unsupported("discriminant of " + repr(v))

    def binop(self, op, args, dest_ty):
        if op.endswith("WithOverflow"):
            a, b = args
            r = {"Add": a + b, "Sub": a - b, "Mul": a * b}[op[:3]]
            ity = re.match(r"^\((\w+), bool\)$", dest_ty.strip()).group(1)
            lo, hi = INT_RANGES[ity]
            return Tup([r, z3.Or(r < lo, r > hi)])
        if op in ("Add", "Sub", "Mul", "AddUnchecked", "SubUnchecked", "MulUnchecked"):
            a, b = args
            if z3.is_fp(a):
                return {"Add": z3.fpAdd, "Sub": z3.fpSub, "Mul": z3.fpMul}[op[:3]](z3.RNE(), a, b)
            r = {"Add": a + b, "Sub": a - b, "Mul": a * b}[op[:3]]
            lo, hi = INT_RANGES[dest_ty.strip()]
            return wrap(r, lo, hi)
        if op in ("Div", "Rem"):
            a, b = args
            if z3.is_fp(a):
                return z3.fpDiv(z3.RNE(), a, b) if op == "Div" else z3.fpRem(a, b)
            q, r = self.divrem(a, b)
            return q if op == "Div" else r
        if op in ("Eq", "Ne", "Lt", "Le", "Gt", "Ge"):
            a, b = args
            if z3.is_fp(a):
                return {"Eq": z3.fpEQ, "Ne": z3.fpNEQ, "Lt": z3.fpLT, "Le": z3.fpLEQ, "Gt": z3.fpGT, "Ge": z3.fpGEQ}[op](a, b)
            if not is_z3(a) and not isinstance(a, int) or not is_z3(b) and not isinstance(b, int):
                raise Unsupported("comparison of non-scalars %r %r" % (a, b))
            return {"Eq": lambda: a == b, "Ne": lambda: a != b, "Lt": lambda: a < b, "Le": lambda: a <= b,
                    "Gt": lambda: a > b, "Ge": lambda: a >= b}[op]()
        if op in ("BitAnd", "BitOr", "BitXor"):
            if all(z3.is_bool(x) for x in args):
                return {"BitAnd": z3.And, "BitOr": z3.Or, "BitXor": z3.Xor}[op](*args)
            raise Unsupported("bitwise op on integers")
        if op == "Not":
            if z3.is_bool(args[0]):
                return z3.Not(args[0])
            raise Unsupported("bitwise not on integer")
        if op == "Neg":
            if z3.is_fp(args[0]):
                return z3.fpNeg(args[0])
            return -args[0]
        raise Unsupported("binop " + op)

    def divrem(self, a, b):
        """truncating division: fresh (q, r) with the division lemma; one pair per syntactic operand pair"""
        ca, cb = conc_int(a), conc_int(b)
        if ca is not None and cb is not None and cb != 0:
            q = abs(ca) // abs(cb)
            if (ca < 0) != (cb < 0):
                q = -q
            return z3.IntVal(q), z3.IntVal(ca - q * cb)
        key = (a.get_id() if is_z3(a) else a, b.get_id() if is_z3(b) else b)
        if key not in self.divcache:
            q = z3.Int(self.fresh_name("q"))
            r = z3.Int(self.fresh_name("r"))
            self.divcache[key] = (q, r, a, b)
            a_, b_ = zint(a), zint(b)
            self.ctx.add_global(z3.Implies(b_ != 0, z3.And(a_ == q * b_ + r,
                                                           z3.If(b_ > 0, z3.And(r < b_, -b_ < r), z3.And(r < -b_, b_ < r)),
                                                           z3.Or(r == 0, (r > 0) == (a_ > 0)))))
        q, r, _, _ = self.divcache[key]
        return q, r

    # ---------------------------------------------------------------------------------------- impl resolution
    def impl_info(self, fname):
        m = re.search(r"<impl at ((?:src|tests)/[\w/.-]+\.rs):(\d+):(\d+): (\d+):(\d+)>", fname)
        if not m:
            return None
        key = m.group(0)
        if key in self.impl_cache:
            return self.impl_cache[key]
        path, l, c, l2, c2 = m.group(1), int(m.group(2)), int(m.group(3)), int(m.group(4)), int(m.group(5))
        lines = open(os.path.join(self.srcdir, path)).read().split("\n")
        text = lines[l - 1][c - 1:]
        if text.startswith("impl"):
            hdr = " ".join(lines[l - 1:l + 4])
            hdr = hdr[hdr.index("impl"):]
            # strip the impl generics
            rest = hdr[4:].lstrip()
            if rest.startswith("<"):
                d = 0
                for j, ch in enumerate(rest):
                    if ch == "<":
                        d += 1
                    elif ch == ">" and rest[j - 1] != "-":
                        d -= 1
                        if d == 0:
                            break
                rest = rest[j + 1:]
            h = re.split(r"\bwhere\b|\{", rest, 1)[0].strip()
            if " for " in h:
                tr, ty = h.split(" for ", 1)
                info = (base_ty(ty), base_ty(tr), tr.strip(), ty.strip())
            else:
                info = (base_ty(h), None, None, h.strip())
        else:
            # derive: span points at the trait name inside #[derive(...)]
            tr = lines[l - 1][c - 1:c2 - 1]
            ty = None
            for k in range(l - 1, min(l + 12, len(lines))):
                mm = re.search(r"\b(enum|struct)\s+(\w+)", lines[k])
                if mm:
                    ty = mm.group(2)
                    break
            info = (ty, tr, tr, ty)
        self.impl_cache[key] = info
        return info

    def resolve(self, callee):
        if callee in self.resolve_cache:
            return self.resolve_cache[callee]
        f = self._resolve(callee)
        self.resolve_cache[callee] = f
        return f

    def _resolve(self, callee):
        c = callee.strip()
        m = re.match(r"^<(.+) as ([^>]+?(?:<.*>)?)>::(\w+)(::<.*>)?$", c, re.S)
        if m:
            ty_full = m.group(1)
            ty = base_ty(ty_full)
            tr_full = m.group(2)
            tr = base_ty(tr_full)
            meth = m.group(3)
            cands = []
            for name, lst in self.fns.items():
                if name.endswith("::" + meth) and "<impl at" in name and "{closure" not in name:
                    ii = self.impl_info(name)
                    if ii and ii[0] == ty and ii[1] == tr:
                        cands.extend(lst)
            if not cands or tr == "From":
                # the impl may be written for a type alias (impl Pairable for ParameterFormals = Located<ParameterFormalsBody>)
                for name, lst in self.fns.items():
                    if name.endswith("::" + meth) and "<impl at" in name and "{closure" not in name:
                        ii = self.impl_info(name)
                        if ii and ii[1] == tr:
                            alias = TYPE_ALIASES.get(ii[0])
                            if alias and _norm_ty(alias) == _norm_ty(ty_full):
                                cands.extend(lst)
            if not cands and tr == "From" and meth == "from":
                # impls generated by derive macros (thiserror's #[from]): resolve by signature
                ga = generic_args(tr_full)
                want = _norm_ty(ga[0]) if ga else None
                for name, lst in self.fns.items():
                    if name.endswith("::from") and "<impl at" in name:
                        for fn in lst:
                            if len(fn.params) == 1 and _norm_ty(fn.params[0][1]) == want and base_ty(fn.ret) == ty:
                                cands.append(fn)
            if len(cands) > 1 and tr == "From":
                # several From impls for one type: disambiguate by the argument type (a blanket `impl<T> From<T> for X<T>` takes
                # exactly X's own parameter; parameter types may be written through aliases)
                ga = generic_args(tr_full)
                want = base_ty(ga[0]) if ga else None
                own = generic_args(ty_full)

                def takes(fn):
                    if not fn.params:
                        return False
                    pt = fn.params[0][1].strip()
                    if re.match(r"^[A-Z]$", pt):
                        return bool(own) and ga and _norm_ty(own[0]) == _norm_ty(ga[0])
                    pt = TYPE_ALIASES.get(base_ty(pt), pt)
                    return base_ty(pt) == want
                cands = [f for f in cands if takes(f)]
            if len(cands) > 1:
                # several impls of the same trait for instantiations of one generic type: match the full self type
                ga = [x for x in cands if _norm_ty(self.impl_info(x.name)[3]) == _norm_ty(ty_full)]
                if len(ga) == 1:
                    cands = ga
            if len(cands) == 1:
                return cands[0]
            if len(cands) > 1:
                raise Unsupported("ambiguous callee %s: %s" % (c, [f.name for f in cands]))
            # trait default method defined in the crate
            for name, lst in self.fns.items():
                if "<impl at" not in name and "{closure" not in name and name.endswith(tr + "::" + meth):
                    return lst[0]
            return None
        m = re.match(r"^(?:[\w:]+::)?<impl (.+)>::(\w+)(::<.*>)?$", c, re.S)
        if m and " at src/" not in m.group(1):
            # inherent impl on an instantiation of a generic type (usually through a type alias): match the self type
            want = _norm_ty(m.group(1))
            meth = m.group(2)
            cands = []
            for name, lst in self.fns.items():
                if name.endswith("::" + meth) and "<impl at" in name and "{closure" not in name:
                    ii = self.impl_info(name)
                    if not ii or ii[1] is not None:
                        continue
                    st = ii[3]
                    alias = TYPE_ALIASES.get(base_ty(st))
                    if _norm_ty(st) == want or (alias and _norm_ty(alias) == want):
                        cands.extend(lst)
            if len(cands) == 1:
                return cands[0]
            if len(cands) > 1:
                raise Unsupported("ambiguous inherent method %s: %s" % (c, [f.name for f in cands]))
            return None
        c2 = strip_turbofish(c)
        c2 = re.sub(r"<'_(, )?", "<", c2)
        parts = [p for p in c2.split("::")]
        meth = parts[-1]
        if "<" in c2 and not c2.startswith("<"):
            # Type<..>::method without turbofish syntax
            c3 = re.sub(r"<[^<>]*>", "", c2)
            while re.search(r"<[^<>]*>", c3):
                c3 = re.sub(r"<[^<>]*>", "", c3)
            parts = c3.split("::")
            meth = parts[-1]
        if len(parts) >= 2 and parts[-2] and parts[-2][0].isupper():
            ty = parts[-2]
            cands = []
            for name, lst in self.fns.items():
                if name.endswith("::" + meth) and "<impl at" in name and "{closure" not in name:
                    ii = self.impl_info(name)
                    if ii and ii[0] == ty and ii[1] is None:
                        cands.extend(lst)
            if len(cands) == 1:
                return cands[0]
            if len(cands) > 1:
                raise Unsupported("ambiguous inherent method %s: %s" % (c, [f.name for f in cands]))
            # trait default method called as Trait::method
            for name, lst in self.fns.items():
                if "<impl at" not in name and "{closure" not in name and name.endswith(ty + "::" + meth):
                    return lst[0]
            return None
        # free function: match on path-segment suffix
        cands = []
        for name, lst in self.fns.items():
            if "<impl at" in name or "{closure" in name or "::promoted" in name:
                continue
            ns = name.split("::")
            k = min(len(ns), len(parts))
            if ns[-1] == meth and ns[-k:] == parts[-k:]:
                cands.extend(lst)
        if len(cands) == 1:
            return cands[0]
        if len(cands) > 1:
            exact = [f for f in cands if f.name == "::".join(parts)]
            if len(exact) == 1:
                return exact[0]
            raise Unsupported("ambiguous function %s: %s" % (c, [f.name for f in cands]))
        return None

    def impl_generics(self, f):
        """(type parameter names, self type pattern) of the impl block (or derive) the function belongs to"""
        key = ("impl", f.name)
        if key in self.generics_cache:
            return self.generics_cache[key]
        res = ([], None)
        m = re.search(r"<impl at ((?:src|tests)/[\w/.-]+\.rs):(\d+):(\d+): (\d+):(\d+)>", f.name)
        if m:
            path, l, c = m.group(1), int(m.group(2)), int(m.group(3))
            lines = open(os.path.join(self.srcdir, path)).read().split("\n")
            text = lines[l - 1][c - 1:]
            hdr = None
            if text.startswith("impl"):
                hdr = " ".join(lines[l - 1:l + 4])
                hdr = hdr[hdr.index("impl") + 4:].lstrip()
                names = []
                if hdr.startswith("<"):
                    d = 0
                    for j, ch in enumerate(hdr):
                        if ch == "<":
                            d += 1
                        elif ch == ">" and hdr[j - 1] != "-":
                            d -= 1
                            if d == 0:
                                break
                    for part in split_top(hdr[1:j]):
                        nm = part.split(":")[0].strip()
                        if nm and not nm.startswith("'") and not nm.startswith("const "):
                            names.append(nm)
                    hdr = hdr[j + 1:]
                h = re.split(r"\bwhere\b|\{", hdr, 1)[0].strip()
                selfty = h.split(" for ", 1)[1].strip() if " for " in h else h
                res = (names, selfty)
            else:
                # derive: the span points into #[derive(..)]; the item declaration follows
                for k in range(l - 1, min(l + 12, len(lines))):
                    mm = re.search(r"\b(enum|struct)\s+(\w+)\s*(<[^{(;]*>)?", lines[k])
                    if mm:
                        names = []
                        if mm.group(3):
                            for part in split_top(mm.group(3)[1:-1]):
                                nm = part.split(":")[0].strip()
                                if nm and not nm.startswith("'"):
                                    names.append(nm)
                        res = (names, mm.group(2) + ("<" + ", ".join(names) + ">" if names else ""))
                        break
        self.generics_cache[key] = res
        return res

    def unify_types(self, pattern, actual, names, out):
        pattern, actual = pattern.strip(), actual.strip()
        pattern = re.sub(r"^&('\w+ )?(mut )?", "", pattern)
        actual = re.sub(r"^&('\w+ )?(mut )?", "", actual)
        if pattern in names:
            out.setdefault(pattern, actual)
            return
        pa = [x for x in generic_args(pattern) if not x.strip().startswith("'")]
        aa = [x for x in generic_args(actual) if not x.strip().startswith("'")]
        if pa and len(pa) == len(aa) and base_ty(pattern) == base_ty(actual):
            for x, y in zip(pa, aa):
                self.unify_types(x, y, names, out)

    def fn_generics(self, f):
        """names of the function's own type parameters (read from the source), for binding call-site turbofish arguments"""
        if f.name in self.generics_cache:
            return self.generics_cache[f.name]
        meth = f.name.rsplit("::", 1)[-1]
        files = []
        m = re.search(r"<impl at ((?:src|tests)/[\w/.-]+\.rs):(\d+):", f.name)
        if m:
            files = [(os.path.join(self.srcdir, m.group(1)), int(m.group(2)))]
        names = []
        for path, line in files:
            txt = open(path).read().split("\n")
            for k in range(line - 1, len(txt)):
                mm = re.search(r"\bfn\s+%s\s*<([^>(]*)>" % re.escape(meth), txt[k])
                if mm:
                    for part in split_top(mm.group(1)):
                        nm = part.split(":")[0].strip()
                        if nm and not nm.startswith("'") and not nm.startswith("const "):
                            names.append(nm)
                    break
                if re.search(r"\bfn\s+%s\s*\(" % re.escape(meth), txt[k]):
                    break
        self.generics_cache[f.name] = names
        return names

    def fn_by_suffix(self, suffix):
        """harness helper: the unique MIR function whose name ends with `suffix`"""
        if suffix in self.byname_cache:
            return self.byname_cache[suffix]
        c = [f for name, lst in self.fns.items() for f in lst if name == suffix or name.endswith("::" + suffix) or name.endswith(suffix) and name[-len(suffix) - 1] in ":>"]
        if len(c) != 1:
            raise Unsupported("fn_by_suffix(%s): %d candidates %s" % (suffix, len(c), [f.name for f in c][:6]))
        self.byname_cache[suffix] = c[0]
        return c[0]

    # ---------------------------------------------------------------------------------------- forking helper
    def branches(self, conds):
        """generator over the indices of the feasible alternatives; each is explored with its condition asserted
        and with the trail restored afterwards"""
        for i, c in enumerate(conds):
            cb = conc_bool(c) if not isinstance(c, bool) else c
            if cb is False:
                continue
            mark = len(TRAIL)
            if cb is True:
                self.ctx.push()
                yield i
                self.ctx.pop()
                undo(mark)
                continue
            self.ctx.push()
            self.ctx.add(c)
            if self.ctx.feasible():
                go = True
                if self.ctx.last_unknown:
                    tset(self, "path_unknowns", self.path_unknowns + 1)
                    if self.path_unknowns > self.path_unknown_limit:
                        self.truncated.append(("path abandoned after %d undecided feasibility queries" % self.path_unknowns, ""))
                        go = False
                if go:
                    yield i
            self.ctx.pop()
            undo(mark)

    def log(self, kind, **kw):
        ev = dict(kw)
        ev["kind"] = kind
        ev["seq"] = len(self.events)
        tappend(self.events, ev)
        return ev

    def panic(self, msg, where=""):
        info = {"msg": msg, "where": where, "events": list(self.events)}
        self.panics.append(info)
        if self.panic_hook:
            self.panic_hook(info)

    # ---------------------------------------------------------------------------------------- calls
    def call(self, callee, args, ret_ty, depth, caller=None):
        cs = strip_turbofish(callee)
        for pat, fn, label in self.stubs:
            if pat.search(cs) or pat.search(callee):
                g = fn(self, callee, args, ret_ty)
                try:
                    first = next(g)
                except StopIteration:
                    self.used_stubs.add(label)
                    return iter(())
                except NoModel:
                    continue
                self.used_stubs.add(label)
                return itertools.chain([first], g)
        for pat, fn, label in self.models:
            if pat.search(cs):
                g = fn(self, callee, args, ret_ty)
                try:
                    first = next(g)
                except StopIteration:
                    self.used_models.add(label)
                    return iter(())
                except NoModel:
                    continue
                self.used_models.add(label)
                return itertools.chain([first], g)
        f = self.resolve(callee)
        if f is not None and f.blocks:
            inames, ipat = self.impl_generics(f)
            if inames and ipat:
                actual = None
                mq = re.match(r"^<(.+) as .+>::\w+", callee, re.S)
                if mq:
                    from .models import self_type
                    actual = self_type(callee)
                else:
                    mi = re.match(r"^(.*)::(\w+)(::<.*>)?$", callee.strip(), re.S)
                    if mi:
                        actual = re.sub(r"::<", "<", mi.group(1))
                if actual:
                    # substitute the caller's own bindings first (nested generic calls)
                    binds = {}
                    self.unify_types(ipat, actual, inames, binds)
                    binds = {k: v for k, v in binds.items() if v not in inames and v != k}
                    if binds:
                        self.pending_generics = dict(binds)
            if "<impl at" not in f.name:
                # a trait's default method: `Self` is the type the method is called on
                mq2 = re.match(r"^<(.+) as [^>]+?(?:<.*>)?>::\w+", callee.strip(), re.S)
                if mq2:
                    from .models import self_type
                    st = self_type(callee)
                    if st and st != "Self":
                        pg = dict(getattr(self, "pending_generics", None) or {})
                        pg["Self"] = st
                        self.pending_generics = pg
            gnames = self.fn_generics(f)
            if gnames:
                mt = re.search(r"::<([^<>]*(?:<[^<>]*>[^<>]*)*)>$", callee.strip())
                if mt:
                    targs = split_top(mt.group(1))
                    targs = [a for a in targs if not a.strip().startswith("'")]
                    if len(targs) == len(gnames):
                        pg = dict(getattr(self, "pending_generics", None) or {})
                        pg.update(dict(zip(gnames, [a.strip() for a in targs])))
                        self.pending_generics = pg
            m = re.match(r"^<((?:&(?:mut )?)+)", callee)
            if m:
                # std's forwarding impls for references (`impl PartialEq<&B> for &A` ...): peel the extra reference levels
                n = m.group(1).count("&")
                args = list(args)
                for _ in range(n):
                    args = [self.load(a) if isinstance(a, Ref) and isinstance(self.load(a), Ref) else a for a in args]
            return self.run(f, args, depth + 1)
        raise Unsupported("no model, stub or MIR body for callee %s (called from %s)" % (callee, caller))

    def call_closure(self, clo, args, depth=0):
        """invoke a closure / fn item value with already-unpacked arguments"""
        c = self.deref(clo) if isinstance(clo, Ref) else clo
        if isinstance(c, Closure):
            cands = self.closure_index.get(c.key) or []
            if len(cands) > 1:
                cands = [x for x in cands if c.parent and x.name.startswith(c.parent + "::{closure")]
            if len(cands) != 1:
                raise Unsupported("closure body not found or ambiguous: %s created in %s" % (c.key, c.parent))
            fn = cands[0]
            first = fn.params[0][1]
            a0 = clo if isinstance(clo, Ref) else (Ref(Cell(c)) if first.startswith("&") else c)
            if not first.startswith("&") and isinstance(a0, Ref):
                a0 = c
            return self.run(fn, [a0] + list(args), depth + 1)
        if isinstance(c, FnPtr):
            return self.call(c.name, list(args), "", depth)
        hook = getattr(self, "opaque_closure_hook", None)
        if hook:
            return hook(self, c, args)
        raise Unsupported("call of non-closure " + repr(c))

    # ---------------------------------------------------------------------------------------- execution
    def run(self, f, args, depth=0):
        if depth > self.max_depth:
            raise Unsupported("call depth bound exceeded in " + f.name)
        self.stats["fn_calls"] += 1
        self.stats["max_depth"] = max(self.stats["max_depth"], depth)
        self.inlined.add(f.name)
        for suffix, limit in self.recursion_limits.items():
            if f.name.endswith(suffix):
                n = self.active.get(suffix, 0)
                if n >= limit:
                    # a stated assumption of the harness on the shape of its (lazily generated) input
                    self.cuts[suffix] = self.cuts.get(suffix, 0) + 1
                    return
                tput(self.active, suffix, n + 1)
                try:
                    fr_ = self._frame(f, args)
                    yield from self.run_block(f, fr_, "bb0", depth, {})
                finally:
                    pass
                tput(self.active, suffix, n)
                return
        fr = self._frame(f, args)
        visits = {}
        yield from self.run_block(f, fr, "bb0", depth, visits)

    def _frame(self, f, args):
        fr = {name: Cell(None, name) for name in f.locals}
        fr["_0"] = fr.get("_0") or Cell(None, "_0")
        fr["__fn"] = Cell(f.name)
        fr["__f"] = Cell(f)
        fr["__generics"] = Cell(getattr(self, "pending_generics", None))
        self.pending_generics = None
        if len(args) != len(f.params):
            raise Unsupported("arity mismatch calling %s: %d args for %d params" % (f.name, len(args), len(f.params)))
        for (pname, _), a in zip(f.params, args):
            fr[pname].v = a
        return fr

    def run_block(self, f, fr, bb, depth, visits):
        while True:
            if self.deadline and time.time() > self.deadline:
                raise Inconclusive("time budget of this check exhausted during symbolic execution (in %s)" % f.name)
            blk = f.blocks[bb]
            n = visits.get(bb, 0) + 1
            if n > self.loop_bound:
                self.truncated.append((f.name, bb))
                return
            tput(visits, bb, n)
            hook = getattr(self, "block_hook", None)
            if hook and hook(self, f, fr, bb) == "stop":
                return
            for st in blk.stmts:
                self.stats["stmts"] += 1
                i = st.find(" = ")
                if i < 0:
                    if st.startswith(_IGNORED_STMTS):
                        continue
                    raise Unsupported("statement " + st)
                pl = parse_place(st[:i])
                dty = f.locals.get(pl[1], "") if pl[0] == "local" else (pl[3] if pl[0] == "field" else "")
                try:
                    self.write_place(fr, pl, self.rvalue(fr, st[i + 3:], dty))
                except PanicExc as p:
                    self.panic(p.msg, "%s %s" % (f.name, bb))
                    return
            t = blk.term
            if t == "return":
                yield fr["_0"].v
                return
            if t == "unreachable":
                if self.ctx.check() == z3.unsat:
                    return      # the path was only assumed feasible
                raise Unsupported("reached `unreachable` in %s %s" % (f.name, bb))
            if t.startswith("goto -> "):
                bb = t[8:].strip()
                continue
            m = _RE_DROP.match(t)
            if m:
                bb = m.group(1)
                continue
            m = _RE_FALSE.match(t)
            if m:
                bb = m.group(1)
                continue
            break
        m = _RE_SWITCH.match(t)
        if m:
            v = self.operand(fr, m.group(1))
            targets = [x.rsplit(":", 1) for x in split_top(m.group(2))]
            conds = []
            tbs = []
            taken = []
            for val, tb in targets:
                val = val.strip()
                tb = tb.strip()
                if val == "otherwise":
                    cond = z3.And(*[z3.Not(c) for c in taken]) if taken else z3.BoolVal(True)
                else:
                    if z3.is_bool(v):
                        cond = v if int(val) != 0 else z3.Not(v)
                    else:
                        cond = (v == int(val))
                    taken.append(cond)
                conds.append(cond)
                tbs.append(tb)
            # values that lead to the same block are one alternative (matches like ' ' | '\t' | '\n' => ...)
            merged = {}
            order = []
            for cnd, tb in zip(conds, tbs):
                if tb not in merged:
                    merged[tb] = []
                    order.append(tb)
                merged[tb].append(cnd)
            mconds = [z3.Or(*merged[tb]) if len(merged[tb]) > 1 else merged[tb][0] for tb in order]
            for i in self.branches(mconds):
                yield from self.run_block(f, fr, order[i], depth, visits)
            return
        m = _RE_ASSERT.match(t)
        if m:
            c = self.operand(fr, m.group(2))
            if m.group(1) == "!":
                c = z3.Not(c)
            for i in self.branches([z3.Not(c), c]):
                if i == 0:
                    self.panic(m.group(3), "%s %s" % (f.name, bb))
                else:
                    yield from self.run_block(f, fr, m.group(4), depth, visits)
            return
        m0 = _RE_CALL.match(t)
        if m0:
            callee, cargs = split_call(m0.group(2))
            g = fr["__generics"].v
            if g:
                for gn, ga in g.items():
                    callee = re.sub(r"(?<![\w:])%s(?![\w:])" % re.escape(gn), ga, callee)
            dest = parse_place(m0.group(1))
            args = [self.operand(fr, a) for a in cargs]
            dty = f.locals.get(dest[1], "") if dest[0] == "local" else ""
            if g:
                for gn, ga in g.items():
                    dty = re.sub(r"(?<![\w:])%s(?![\w:])" % re.escape(gn), ga, dty)
            nxt = m0.group(3)
            try:
                for rv in self.call(callee, args, dty, depth, caller=f.name):
                    mark = len(TRAIL)
                    self.ctx.push()
                    self.write_place(fr, dest, rv)
                    yield from self.run_block(f, fr, nxt, depth, visits)
                    self.ctx.pop()
                    undo(mark)
            except PanicExc as p:
                self.panic(p.msg, "%s %s" % (f.name, bb))
            return
        m0 = _RE_CALL_DIVERGE.match(t)
        if m0:
            callee, cargs = split_call(m0.group(2))
            cs = strip_turbofish(callee)
            if re.search(r"panic|unwrap_failed|expect_failed|begin_panic|unreachable_display|panic_fmt|handle_error|slice_index|panic_bounds", cs):
                self.panic("explicit panic: " + cs, "%s %s" % (f.name, bb))
                return
            args = [self.operand(fr, a) for a in cargs]
            try:
                for _ in self.call(callee, args, "!", depth, caller=f.name):
                    raise Unsupported("diverging call returned: " + callee)
            except PanicExc as p:
                self.panic(p.msg, "%s %s" % (f.name, bb))
            return
        raise Unsupported("terminator " + t)

    # ---------------------------------------------------------------------------------------- model helpers
    def model_eval(self, model, v):
        return model.eval(v, model_completion=True)


_BINOPS = {"AddWithOverflow", "SubWithOverflow", "MulWithOverflow", "Add", "Sub", "Mul", "Div", "Rem", "Eq", "Ne", "Lt", "Le",
           "Gt", "Ge", "BitAnd", "BitOr", "BitXor", "Not", "Neg", "AddUnchecked", "SubUnchecked", "MulUnchecked"}
_IGNORED_STMTS = ("nop", "FakeRead", "PlaceMention", "AscribeUserType", "Retag", "ConstEvalCounter", "Coverage", "Deinit", "BackwardIncompatibleDropHint")
_RE_DROP = re.compile(r"^drop\(.*\) -> \[return: (bb\d+), unwind.*\]$")
_RE_FALSE = re.compile(r"^false(?:Edge|Unwind) -> \[real: (bb\d+),.*\]$")
_RE_SWITCH = re.compile(r"^switchInt\((.+)\) -> \[(.+)\]$")
_RE_ASSERT = re.compile(r"^assert\((!?)(.+?), \"(.*?)\".*\) -> \[success: (bb\d+), unwind.*\]$", re.S)
_RE_CALL = re.compile(r"^(.+?) = (.+) -> \[return: (bb\d+), unwind.*\]$", re.S)
_RE_CALL_DIVERGE = re.compile(r"^(.+?) = (.+) -> (?:unwind.*|bb\d+)$", re.S)     # a call that never returns (its only edge is the unwind edge)


def _top_level_brace(rv):
    """index of the '{' that opens a struct-literal aggregate `Type { f: v }` at nesting depth 0, else None"""
    d = 0
    for i, c in enumerate(rv):
        if c in "(<[":
            d += 1
        elif c in ")]":
            d -= 1
        elif c == ">" and rv[i - 1] != "-":
            d -= 1
        elif c == "{" and d == 0:
            return i if rv[i - 1] == " " else None
    return None


def _norm_ty(t):
    t = re.sub(r"\b(\w+::)+", "", t)
    return re.sub(r"\s+", "", t)


def _unescape_rust(s):
    out = []
    i = 0
    while i < len(s):
        c = s[i]
        if c == "\\" and i + 1 < len(s):
            n = s[i + 1]
            if n == "n":
                out.append("\n")
            elif n == "t":
                out.append("\t")
            elif n == "r":
                out.append("\r")
            elif n == "0":
                out.append("\0")
            elif n == "u":
                j = s.index("}", i)
                out.append(chr(int(s[i + 3:j], 16)))
                i = j + 1
                continue
            elif n == "x":
                out.append(chr(int(s[i + 2:i + 4], 16)))
                i += 4
                continue
            else:
                out.append(n)
            i += 2
        else:
            out.append(c)
            i += 1
    return "".join(out)
