"""Engine B: Kani/CBMC harnesses appended to the scratch copy (no hook in /repo)."""
import os
import re
import shutil
import subprocess
import time

from .harness import VERIF, CACHE, ENV, Broken


def run_kani(ws, append_to, harness_src, harness, defines, timeout_s=900, mem_kb=24 * 1024 * 1024, extra_files=()):
    """appends harness_src (with VERIF_* placeholders replaced) to src/<append_to> of the scratch copy and runs the
    named harness. Returns dict(status='success'|'failed'|'error', checks=.., time_s=.., cex=[[bytes..]..], log=..)"""
    src = open(os.path.join(VERIF, "kani", harness_src)).read()
    for k, v in defines.items():
        src = src.replace(k, str(v))
    target = os.path.join(ws.crate, "src", append_to)
    marker = "// --- verif kani harness: %s ---" % harness_src
    body = open(target).read()
    if marker in body:
        body = body[:body.index(marker)]
    open(target, "w").write(body + "\n" + marker + "\n" + src)
    for name, dst in extra_files:
        shutil.copy2(os.path.join(VERIF, "kani", name), os.path.join(ws.crate, "src", dst))
    env = dict(ENV)
    tdir = os.path.join(CACHE, "target-kani")
    cmd = ["bash", "-c", "ulimit -v %d; exec timeout %d cargo kani --target-dir %s --harness %s -Z concrete-playback --concrete-playback=print --output-format terse"
           % (mem_kb, timeout_s, tdir, harness)]
    t = time.time()
    p = subprocess.run(cmd, cwd=ws.crate, env=env, stdout=subprocess.PIPE, stderr=subprocess.STDOUT)
    out = p.stdout.decode("utf-8", "replace")
    dt = time.time() - t
    res = {"time_s": round(dt, 1), "log_tail": out[-3000:], "rc": p.returncode}
    m = re.search(r"VERIFICATION:- (SUCCESSFUL|FAILED)", out)
    res["status"] = "error"
    if m and "Status: ERROR" not in out:
        res["status"] = "success" if m.group(1) == "SUCCESSFUL" else "failed"
    m = re.search(r"\*\* (\d+) of (\d+) failed", out)
    if m:
        res["failed_checks"], res["checks"] = int(m.group(1)), int(m.group(2))
    m = re.search(r"\*\* (\d+) of (\d+) cover properties satisfied", out)
    if m:
        res["covers_satisfied"], res["covers"] = int(m.group(1)), int(m.group(2))
    res["unwinding_failed"] = bool(re.search(r"unwinding assertion.*FAILURE|Failed Checks: unwinding assertion", out))
    m = re.search(r"Verification Time: ([\d.]+)s", out)
    if m:
        res["solver_time_s"] = float(m.group(1))
    # concrete playback: one generated test per failed check / satisfied cover; keep the one for a failed assertion
    cex = []
    for block in out.split("Concrete playback unit test for")[1:]:
        m = re.search(r"Check for `(\w+)`", block)
        if not m or m.group(1) == "cover":
            continue
        vals = []
        for vm in re.finditer(r"^\s*vec!\[([\d,\s]*)\],\s*$", block, re.M):
            body = vm.group(1).strip()
            vals.append([int(x) for x in body.split(",") if x.strip()] if body else [])
        if vals:
            cex = vals
            break
    res["cex"] = cex
    failed = re.findall(r"Failed Checks: (.*)", out)
    res["failed_descriptions"] = failed[:10]
    return res
