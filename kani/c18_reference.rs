// Reference model of the reader's lexical structure, for deciding "all opened lists are closed" (C18).
// Included both by the Kani harness (appended to a scratch copy of src/repl.rs) and by the native runner, which
// validates it against the real Lexer on every string up to a bounded length over the same alphabet.
// It only has to be right on texts over VERIF_C18_ALPHABET.

pub const VERIF_C18_ALPHABET: [char; 13] = ['(', ')', '"', ';', '\n', '\r', '#', '\\', '|', '\'', 'a', '1', ' '];

fn verif_is_delimiter(c: char) -> bool {
    matches!(c, ' ' | '\t' | '\n' | '\r' | '(' | ')' | '"' | ';' | '|')
}

/// Some(depth) = opened minus closed lists over the token stream; None = the reader rejects the text (lexical error),
/// in which case the property says nothing about it.  One pass, one character per iteration (cheap to unwind).
pub fn verif_ref_depth(text: &[char]) -> Option<i32> {
    #[derive(PartialEq, Clone, Copy)]
    enum St {
        Top,
        Comment,
        Str,
        StrEsc,
        Bar,
        Sharp,
        CharLit,
        Ident,
        Num,
    }
    let mut depth: i32 = 0;
    let mut st = St::Top;
    let mut i = 0;
    while i < text.len() {
        let c = text[i];
        i += 1;
        if st == St::Ident || st == St::Num {
            // identifiers continue over identifier characters and digits, numbers over digits; both must be followed by
            // a delimiter (or the end), which is then read as the start of the next token
            if c == '1' || (st == St::Ident && c == 'a') {
                continue;
            }
            if !verif_is_delimiter(c) {
                return None;
            }
            st = St::Top;
        }
        st = match st {
            St::Top => match c {
                ' ' | '\t' | '\n' | '\r' | '\'' => St::Top,
                ';' => St::Comment,
                '(' => {
                    depth += 1;
                    St::Top
                }
                ')' => {
                    depth -= 1;
                    St::Top
                }
                '#' => St::Sharp,
                '"' => St::Str,
                '|' => St::Bar,
                '1' => St::Num,
                _ => St::Ident, // 'a', or a backslash at token start
            },
            St::Comment => {
                if c == '\n' || c == '\r' {
                    St::Top
                } else {
                    St::Comment
                }
            }
            St::Str => match c {
                '"' => St::Top,
                '\\' => St::StrEsc,
                _ => St::Str,
            },
            St::StrEsc => {
                if !matches!(c, 'a' | 'b' | 't' | 'n' | 'r' | '"' | '\\' | '|' | 'x' | ' ') {
                    return None;
                }
                St::Str
            }
            St::Bar => {
                if c == '|' {
                    St::Top
                } else {
                    St::Bar
                }
            }
            St::Sharp => match c {
                '(' => {
                    depth += 1;
                    St::Top
                }
                '\\' => St::CharLit,
                _ => return None, // #t #f #u8( are outside the alphabet
            },
            St::CharLit => St::Top,
            St::Ident | St::Num => St::Top, // unreachable: handled above
        };
    }
    match st {
        St::Top | St::Comment | St::Ident | St::Num => Some(depth),
        _ => None, // the text ends inside a string, |identifier|, or after # / #\
    }
}
