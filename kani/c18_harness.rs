
#[cfg(kani)]
mod verif_c18 {
    use super::check_bracket_closed;
    include!("verif_c18_reference.rs");
    const N: usize = VERIF_N;

    #[kani::proof]
    #[kani::unwind(VERIF_UNWIND)]
    fn c18_completeness_test_agrees_with_reader() {
        let len: usize = kani::any();
        kani::assume(len <= N);
        let mut buf = ['a'; N];
        let mut i = 0;
        while i < N {
            let k: u8 = kani::any();
            kani::assume((k as usize) < VERIF_C18_ALPHABET.len());
            buf[i] = VERIF_C18_ALPHABET[k as usize];
            i += 1;
        }
        let verdict = check_bracket_closed(buf[..len].iter().copied());
        let reference = verif_ref_depth(&buf[..len]);
        kani::cover!(reference.is_some() && len == N, "a full-length text accepted by the reader is reachable");
        kani::cover!(reference == Some(1), "an open list is reachable");
        if let Some(d) = reference {
            assert!(verdict == (d <= 0), "check_bracket_closed disagrees with the reader");
        }
    }

    #[kani::proof]
    #[kani::unwind(4)]
    fn c18_other_characters_behave_like_a_letter() {
        // one fully symbolic character that is none of the special ones, between two special ones
        let c: char = kani::any();
        kani::assume(!matches!(c, '(' | ')' | '"' | ';' | '\n' | '\r' | '#' | '\\' | '|'));
        let a: u8 = kani::any();
        kani::assume((a as usize) < VERIF_C18_ALPHABET.len());
        let x = VERIF_C18_ALPHABET[a as usize];
        let with_c = check_bracket_closed([x, c, x].iter().copied());
        let with_letter = check_bracket_closed([x, 'a', x].iter().copied());
        assert!(with_c == with_letter, "a non-special character changes the verdict");
    }
}
