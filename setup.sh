#!/bin/bash
# Builds the dependency caches the checks reuse (the checks also work without them, only slower). Offline.
set -e
cd "$(dirname "$0")"
export CARGO_NET_OFFLINE=true
mkdir -p .cache evidence replays
python3-vt - <<'PY'
import sys
sys.path.insert(0, ".")
from mirsym.harness import Workspace
ws = Workspace()
ws.mir(True)
ws.mir(False)
ws.runner("dev")
ws.runner("release")
ws.mir_bin()
ws.repl_binary()
ws.cleanup()
print("setup ok")
PY
