// Native replay / differential-validation runner.
// Copied into a scratch copy of /repo as src/bin/verif_runner.rs (never into /repo itself) and built against the
// repository's current sources.  Line protocol on stdin/stdout; every command runs under catch_unwind.
use ruschm::environment::Environment;
use ruschm::error::{ErrorData, SchemeError};
use ruschm::interpreter::error::LogicError;
use ruschm::interpreter::library::native::base::library_map;
use ruschm::interpreter::Interpreter;
use ruschm::parser::pair::GenericPair;
use ruschm::parser::{Expression, ExpressionBody, Lexer, Parser, Primitive};
use ruschm::values::{ArgVec, Number, Procedure, Value, ValueReference};
use std::io::{BufRead, Write};
use std::panic::{catch_unwind, AssertUnwindSafe};
use std::rc::Rc;

type V = Value<f32>;

mod c18ref {
    include!("../verif_c18_reference.rs");
}

fn lexer_depth(s: &str) -> (bool, i64, usize) {
    let lexer = Lexer::from_char_stream(s.chars());
    let mut depth: i64 = 0;
    let mut n = 0;
    for tok in lexer {
        match tok {
            Ok(tk) => {
                n += 1;
                match tk.data {
                    ruschm::parser::TokenData::LeftParen
                    | ruschm::parser::TokenData::VecConsIntro
                    | ruschm::parser::TokenData::ByteVecConsIntro => depth += 1,
                    ruschm::parser::TokenData::RightParen => depth -= 1,
                    _ => (),
                }
            }
            Err(_) => return (false, depth, n),
        }
    }
    (true, depth, n)
}

/// validates the C18 reference model against the real lexer on every string up to `maxlen` over the alphabet
fn c18sweep(maxlen: usize) -> String {
    let alpha = c18ref::VERIF_C18_ALPHABET;
    let mut total: u64 = 0;
    let mut accepted: u64 = 0;
    for len in 0..=maxlen {
        let mut idx = vec![0usize; len];
        loop {
            let chars: Vec<char> = idx.iter().map(|i| alpha[*i]).collect();
            let text: String = chars.iter().collect();
            let (ok, depth, _) = lexer_depth(&text);
            let r = c18ref::verif_ref_depth(&chars);
            total += 1;
            let agree = match r {
                Some(d) => ok && (d as i64) == depth,
                None => !ok,
            };
            if ok {
                accepted += 1;
            }
            if !agree {
                return format!("OK SWEEP 0 {} {} {}", total, accepted, hex(&text));
            }
            // next string
            let mut k = 0;
            while k < len {
                idx[k] += 1;
                if idx[k] < alpha.len() {
                    break;
                }
                idx[k] = 0;
                k += 1;
            }
            if k == len {
                break;
            }
        }
    }
    format!("OK SWEEP 1 {} {} -", total, accepted)
}

fn hex(s: &str) -> String {
    let mut o = String::new();
    for b in s.as_bytes() {
        o.push_str(&format!("{:02x}", b));
    }
    if o.is_empty() {
        o.push('-');
    }
    o
}
fn unhex(s: &str) -> String {
    if s == "-" {
        return String::new();
    }
    let b: Vec<u8> = (0..s.len() / 2)
        .map(|i| u8::from_str_radix(&s[2 * i..2 * i + 2], 16).unwrap())
        .collect();
    String::from_utf8_lossy(&b).to_string()
}

struct Toks<'a> {
    t: Vec<&'a str>,
    i: usize,
}
impl<'a> Toks<'a> {
    fn next(&mut self) -> &'a str {
        let x = self.t[self.i];
        self.i += 1;
        x
    }
    fn int<T: std::str::FromStr>(&mut self) -> T
    where
        T::Err: std::fmt::Debug,
    {
        self.next().parse::<T>().unwrap()
    }
}

fn parse_number(t: &mut Toks) -> Number<f32> {
    match t.next() {
        "I" => Number::Integer(t.int()),
        "Q" => {
            let a = t.int();
            let b = t.int();
            Number::Rational(a, b)
        }
        "F" => Number::Real(f32::from_bits(u32::from_str_radix(t.next(), 16).unwrap())),
        x => panic!("bad number token {}", x),
    }
}

fn parse_value(t: &mut Toks, pool: &mut Vec<V>) -> V {
    let k = t.next();
    match k {
        "I" | "Q" | "F" => {
            t.i -= 1;
            Value::Number(parse_number(t))
        }
        "B" => Value::Boolean(t.next() == "1"),
        "C" => Value::Character(std::char::from_u32(t.int()).unwrap()),
        "S" => Value::String(unhex(t.next())),
        "Y" => Value::Symbol(unhex(t.next())),
        "U" => Value::Void,
        "N" => Value::Pair(Box::new(GenericPair::Empty)),
        "VM" | "VI" => {
            let n: usize = t.int();
            let mut items = Vec::new();
            for _ in 0..n {
                items.push(parse_value(t, pool));
            }
            let v = if k == "VM" {
                Value::Vector(ValueReference::new_mutable(items))
            } else {
                Value::Vector(ValueReference::new_immutable(items))
            };
            pool.push(v.clone());
            v
        }
        "REF" => {
            // alias of the k-th vector created so far in this command
            let i: usize = t.int();
            pool[i].clone()
        }
        "L" => {
            let n: usize = t.int();
            let mut items = Vec::new();
            for _ in 0..n {
                items.push(parse_value(t, pool));
            }
            Value::Pair(Box::new(items.into_iter().collect::<GenericPair<V>>()))
        }
        "D" => {
            // improper list: n items and a tail
            let n: usize = t.int();
            let mut items = Vec::new();
            for _ in 0..n {
                items.push(parse_value(t, pool));
            }
            let mut tail = parse_value(t, pool);
            for item in items.into_iter().rev() {
                tail = Value::Pair(Box::new(GenericPair::Some(item, tail)));
            }
            tail
        }
        "T" => Value::Transformer(ruschm::parser::Transformer::Native(|d| Ok(d))),
        "P" => {
            // builtin procedure by name
            let name = unhex(t.next());
            library_map::<f32>()
                .into_iter()
                .find(|(n, _)| *n == name)
                .map(|(_, v)| v)
                .unwrap()
        }
        x => panic!("bad value token {}", x),
    }
}

fn show_number(n: &Number<f32>) -> String {
    match n {
        Number::Integer(i) => format!("I {}", i),
        Number::Rational(a, b) => format!("Q {} {}", a, b),
        Number::Real(r) => format!("F {:08x}", r.to_bits()),
    }
}

fn show_value(v: &V) -> String {
    match v {
        Value::Number(n) => show_number(n),
        Value::Boolean(b) => format!("B {}", if *b { 1 } else { 0 }),
        Value::Character(c) => format!("C {}", *c as u32),
        Value::String(s) => format!("S {}", hex(s)),
        Value::Symbol(s) => format!("Y {}", hex(s)),
        Value::Void => "U".to_string(),
        Value::Procedure(_) => "P".to_string(),
        Value::Transformer(_) => "T".to_string(),
        Value::Vector(r) => {
            let items: Vec<String> = r.as_ref().iter().map(show_value).collect();
            let k = match r {
                ValueReference::Mutable(_) => "VM",
                ValueReference::Immutable(_) => "VI",
            };
            format!("{} {} {}", k, items.len(), items.join(" "))
        }
        Value::Pair(p) => {
            let mut items = Vec::new();
            let mut cur: &GenericPair<V> = p.as_ref();
            loop {
                match cur {
                    GenericPair::Empty => {
                        return format!("L {} {}", items.len(), items.join(" "));
                    }
                    GenericPair::Some(car, cdr) => {
                        items.push(show_value(car));
                        match cdr {
                            Value::Pair(next) => cur = next.as_ref(),
                            other => {
                                return format!(
                                    "D {} {} {}",
                                    items.len(),
                                    items.join(" "),
                                    show_value(other)
                                );
                            }
                        }
                    }
                }
            }
        }
    }
}

fn err_kind(e: &SchemeError) -> String {
    let k = match &e.data {
        ErrorData::Syntax(_) => "Syntax".to_string(),
        ErrorData::IO(_) => "IO".to_string(),
        ErrorData::Logic(l) => match l {
            LogicError::UnboundedSymbol(_) => "UnboundedSymbol",
            LogicError::TypeMisMatch(..) => "TypeMisMatch",
            LogicError::UnexpectedExpression(_) => "UnexpectedExpression",
            LogicError::DivisionByZero => "DivisionByZero",
            LogicError::InExactConversion(_) => "InExactConversion",
            LogicError::InproperList(_) => "InproperList",
            LogicError::NegativeLength => "NegativeLength",
            LogicError::VectorIndexOutOfBounds => "VectorIndexOutOfBounds",
            LogicError::ArgumentMissMatch(..) => "ArgumentMissMatch",
            LogicError::RequiresMutable(_) => "RequiresMutable",
            LogicError::MetaCircularSyntax(_) => "MetaCircularSyntax",
            LogicError::Extension(_) => "Extension",
            LogicError::LibraryNotFound(_) => "LibraryNotFound",
            LogicError::LibraryImportCyclic(_) => "LibraryImportCyclic",
        }
        .to_string(),
    };
    let loc = match e.location {
        Some([l, c]) => format!("{}:{}", l, c),
        None => "-".to_string(),
    };
    format!("ERR {} {} {}", k, loc, hex(&format!("{}", e)))
}

fn show_result(r: Result<V, SchemeError>) -> String {
    match r {
        Ok(v) => format!("OK {}", show_value(&v)),
        Err(e) => err_kind(&e),
    }
}

fn num1(op: &str, x: Number<f32>) -> String {
    let r = match op {
        "abs" => Ok(x.abs()),
        "floor" => Ok(x.floor()),
        "ceiling" => Ok(x.ceiling()),
        "exact" => x.exact(),
        _ => panic!("num1 op"),
    };
    match r {
        Ok(n) => format!("OK {}", show_number(&n)),
        Err(e) => err_kind(&e),
    }
}

fn num2(op: &str, x: Number<f32>, y: Number<f32>) -> String {
    let r: Result<Number<f32>, SchemeError> = match op {
        "add" => Ok(x + y),
        "sub" => Ok(x - y),
        "mul" => Ok(x * y),
        "div" => x / y,
        "floor_quotient" => x.floor_quotient(y),
        "floor_remainder" => x.floor_remainder(y),
        "eq" => return format!("OK B {}", (x == y) as i32),
        "lt" => return format!("OK B {}", (x < y) as i32),
        "le" => return format!("OK B {}", (x <= y) as i32),
        "gt" => return format!("OK B {}", (x > y) as i32),
        "ge" => return format!("OK B {}", (x >= y) as i32),
        "cmp" => {
            return format!(
                "OK O {}",
                match x.partial_cmp(&y) {
                    Some(std::cmp::Ordering::Less) => "Less",
                    Some(std::cmp::Ordering::Equal) => "Equal",
                    Some(std::cmp::Ordering::Greater) => "Greater",
                    None => "None",
                }
            )
        }
        _ => panic!("num2 op"),
    };
    match r {
        Ok(n) => format!("OK {}", show_number(&n)),
        Err(e) => err_kind(&e),
    }
}

fn builtin(name: &str, args: Vec<V>, via_apply: bool) -> String {
    let proc = library_map::<f32>()
        .into_iter()
        .find(|(n, _)| n.as_str() == name)
        .map(|(_, v)| v)
        .expect("no such builtin");
    let env = Rc::new(Environment::new());
    let args: ArgVec<f32> = args.into_iter().collect();
    let shown_after: Vec<V> = args.iter().cloned().collect();
    let r = match proc {
        Value::Procedure(p) => {
            if via_apply {
                Interpreter::apply_procedure(&p, args, &env)
            } else {
                match &p {
                    Procedure::Builtin(b) => b.body.apply(args, &env),
                    _ => panic!("not builtin"),
                }
            }
        }
        _ => panic!("not a procedure"),
    };
    // the arguments are shown again after the call so that effects on shared vectors are visible
    let after: Vec<String> = shown_after.iter().map(show_value).collect();
    format!("{} ;; {}", show_result(r), after.join(" | "))
}

fn evalforms(text: &str, stdlib: bool) -> String {
    let mut it = if stdlib {
        Interpreter::<f32>::new_with_stdlib()
    } else {
        Interpreter::<f32>::default()
    };
    let mut out: Vec<String> = Vec::new();
    let lexer = Lexer::from_char_stream(text.chars());
    let parser = Parser::from_lexer(lexer);
    for statement in parser {
        match statement {
            Err(e) => {
                out.push(err_kind(&e));
                break;
            }
            Ok(st) => {
                let r = catch_unwind(AssertUnwindSafe(|| it.eval_root_ast(&st)));
                match r {
                    Err(_) => out.push("PANIC".to_string()),
                    Ok(Ok(Some(v))) => out.push(format!("OK {}", show_value(&v))),
                    Ok(Ok(None)) => out.push("OK -".to_string()),
                    Ok(Err(e)) => out.push(err_kind(&e)),
                }
            }
        }
    }
    out.join(" ;; ")
}

/// scope <nf> <parent_0..parent_nf-1 (-1 = root)> <ndefs> (<frame> <namehex> <int>)* <op> <frame> <namehex> [<int>]
fn scope_cmd(t: &mut Toks) -> String {
    use ruschm::environment::LexicalScope;
    let nf: usize = t.int();
    let mut frames: Vec<Rc<LexicalScope<i64>>> = Vec::new();
    for _ in 0..nf {
        let p: i64 = t.int();
        let f = if p < 0 {
            LexicalScope::new()
        } else {
            LexicalScope::new_child(frames[p as usize].clone())
        };
        frames.push(Rc::new(f));
    }
    let nd: usize = t.int();
    for _ in 0..nd {
        let f: usize = t.int();
        let name = unhex(t.next());
        let v: i64 = t.int();
        frames[f].define(name, v);
    }
    let op = t.next();
    let f: usize = t.int();
    let name = unhex(t.next());
    let res = match op {
        "set" => {
            let v: i64 = t.int();
            match frames[f].set(&name, v) {
                Ok(()) => "OK U".to_string(),
                Err(e) => err_kind(&e),
            }
        }
        "define" => {
            let v: i64 = t.int();
            frames[f].define(name.clone(), v);
            "OK U".to_string()
        }
        "get" => match frames[f].get(&name) {
            Some(v) => format!("OK I {}", *v),
            None => "OK None".to_string(),
        },
        "get_mut" => match frames[f].get_mut(&name) {
            Some(v) => format!("OK I {}", *v),
            None => "OK None".to_string(),
        },
        _ => panic!("scope op"),
    };
    let mut dump = Vec::new();
    for fr in frames.iter() {
        let mut defs: Vec<String> = Vec::new();
        {
            let mut it = fr.iter_local_definitions();
            while let Some((k, v)) = it.next() {
                defs.push(format!("{}={}", k, v));
            }
        }
        defs.sort();
        dump.push(defs.join(","));
    }
    format!("{} ;; {}", res, dump.join(" | "))
}

/// libs <stdlib 0|1> <n> (<name-parts-hex, '.'-separated identifiers> <source-hex>)* <program-hex>
/// registers library factories from source text (a source that does not parse / does not contain the library is
/// reported and skipped, so that the library is then simply missing), then evaluates the program form by form.
fn libs_cmd(t: &mut Toks) -> String {
    use ruschm::interpreter::LibraryFactory;
    use ruschm::parser::{LibraryName, LibraryNameElement};
    let stdlib = t.next() == "1";
    let n: usize = t.int();
    let mut it = if stdlib {
        Interpreter::<f32>::new_with_stdlib()
    } else {
        Interpreter::<f32>::default()
    };
    let mut notes = Vec::new();
    for _ in 0..n {
        let name = unhex(t.next());
        let src = unhex(t.next());
        let lname = LibraryName(
            name.split('.')
                .map(|p| LibraryNameElement::Identifier(p.to_string()))
                .collect(),
        );
        match LibraryFactory::from_char_stream(&lname, src.chars()) {
            Ok(f) => it.register_library_factory(f),
            Err(e) => notes.push(format!("REGFAIL {} {}", hex(&name), err_kind(&e))),
        }
    }
    let text = unhex(t.next());
    let mut out: Vec<String> = Vec::new();
    let lexer = Lexer::from_char_stream(text.chars());
    let parser = Parser::from_lexer(lexer);
    for statement in parser {
        match statement {
            Err(e) => {
                out.push(err_kind(&e));
                break;
            }
            Ok(st) => {
                let r = catch_unwind(AssertUnwindSafe(|| it.eval_root_ast(&st)));
                match r {
                    Err(_) => out.push("PANIC".to_string()),
                    Ok(Ok(Some(v))) => out.push(format!("OK {}", show_value(&v))),
                    Ok(Ok(None)) => out.push("OK -".to_string()),
                    Ok(Err(e)) => out.push(err_kind(&e)),
                }
            }
        }
    }
    // names bound in the top-level environment afterwards (sorted), for the import-set checks
    let mut names: Vec<String> = Vec::new();
    {
        let mut defs = it.env.iter_local_definitions();
        while let Some((k, _)) = defs.next() {
            names.push(k.clone());
        }
    }
    names.sort();
    format!("{} ;;; {} ;;; {}", out.join(" ;; "), names.join(" "), notes.join(" "))
}

/// flibs <n> (<file-stem-hex> <content-hex>)* <program-hex>
/// writes the files <stem>.sld into a fresh directory, makes it the program directory of a new interpreter (no library
/// registered by hand: every user library is found through the file system) and evaluates the program form by form.
fn flibs_cmd(t: &mut Toks) -> String {
    use std::sync::atomic::{AtomicUsize, Ordering};
    static COUNTER: AtomicUsize = AtomicUsize::new(0);
    let n: usize = t.int();
    let dir = std::env::temp_dir().join(format!(
        "ruschm-verif-flibs-{}-{}",
        std::process::id(),
        COUNTER.fetch_add(1, Ordering::SeqCst)
    ));
    let _ = std::fs::remove_dir_all(&dir);
    std::fs::create_dir_all(&dir).unwrap();
    for _ in 0..n {
        let stem = unhex(t.next());
        let content = unhex(t.next());
        let path = dir.join(format!("{}.sld", stem));
        if let Some(parent) = path.parent() {
            std::fs::create_dir_all(parent).unwrap();
        }
        std::fs::write(&path, content).unwrap();
    }
    let mut it = Interpreter::<f32>::new_with_stdlib();
    it.program_directory = Some(dir.clone());
    let text = unhex(t.next());
    let mut out: Vec<String> = Vec::new();
    let lexer = Lexer::from_char_stream(text.chars());
    let parser = Parser::from_lexer(lexer);
    for statement in parser {
        match statement {
            Err(e) => {
                out.push(err_kind(&e));
                break;
            }
            Ok(st) => {
                let r = catch_unwind(AssertUnwindSafe(|| it.eval_root_ast(&st)));
                match r {
                    Err(_) => out.push("PANIC".to_string()),
                    Ok(Ok(Some(v))) => out.push(format!("OK {}", show_value(&v))),
                    Ok(Ok(None)) => out.push("OK -".to_string()),
                    Ok(Err(e)) => out.push(err_kind(&e)),
                }
            }
        }
    }
    let _ = std::fs::remove_dir_all(&dir);
    out.join(" ;; ")
}

/// replref <n> <line-hex>*   (an empty line is written as "-")
/// the REPL protocol as the property states it, on the lines as the line editor delivers them: the text entered since the last
/// submission is evaluated as soon as it passes the completeness test (the crate's own check_bracket_closed), not before;
/// a value other than the unspecified one is printed on stdout, an error on stderr. Returns "OK R <stdout-hex> <stderr-hex>".
fn replref_cmd(t: &mut Toks) -> String {
    let n: usize = t.int();
    let mut it = Interpreter::<f32>::new_with_stdlib();
    let mut source = String::new();
    let mut out = String::new();
    let mut err = String::new();
    for _ in 0..n {
        let tok = t.next();
        let line = if tok == "-" { String::new() } else { unhex(tok) };
        if line.is_empty() {
            continue;
        }
        source.push_str(&line);
        if ruschm::repl::__verif_check_bracket_closed(&source) {
            match it.eval(source.chars()) {
                Ok(Some(Value::Void)) | Ok(None) => (),
                Ok(Some(v)) => out.push_str(&format!("{}\n", v)),
                Err(e) => err.push_str(&format!("{}\n", e)),
            }
            source.clear();
        } else {
            source.push('\n');
        }
    }
    format!("OK R {} {}", if out.is_empty() { "-".to_string() } else { hex(&out) }, if err.is_empty() { "-".to_string() } else { hex(&err) })
}

fn run_line(line: &str) -> String {
    let mut t = Toks {
        t: line.split_whitespace().collect(),
        i: 0,
    };
    let mut pool = Vec::new();
    match t.next() {
        "num1" => {
            let op = t.next();
            let x = parse_number(&mut t);
            num1(op, x)
        }
        "num2" => {
            let op = t.next();
            let x = parse_number(&mut t);
            let y = parse_number(&mut t);
            num2(op, x, y)
        }
        "builtin" | "apply" => {
            let via = t.t[0] == "apply";
            let name = unhex(t.next());
            let n: usize = t.int();
            let mut args = Vec::new();
            for _ in 0..n {
                args.push(parse_value(&mut t, &mut pool));
            }
            builtin(&name, args, via)
        }
        "literal" => {
            let p = match t.next() {
                "I" => Primitive::Integer(t.int()),
                "Q" => {
                    let a = t.int();
                    let b: u32 = t.int();
                    Primitive::Rational(a, b)
                }
                "R" => Primitive::Real(unhex(t.next())),
                _ => panic!("literal"),
            };
            let env = Rc::new(Environment::new());
            let e: Expression = ExpressionBody::Primitive(p).into();
            show_result(Interpreter::<f32>::eval_expression(&e, &env))
        }
        "eval" => evalforms(&unhex(t.next()), true),
        "evalbare" => evalforms(&unhex(t.next()), false),
        "bracket" => {
            let s = unhex(t.next());
            format!("OK B {}", ruschm::repl::__verif_check_bracket_closed(&s) as i32)
        }
        "tokens" => {
            // token stream of the real lexer: used only to validate the C18 reference model
            let s = unhex(t.next());
            let lexer = Lexer::from_char_stream(s.chars());
            let mut depth: i64 = 0;
            let mut ok = true;
            let mut n = 0;
            for tok in lexer {
                match tok {
                    Ok(tk) => {
                        n += 1;
                        let d = format!("{:?}", tk.data);
                        if d == "LeftParen" || d == "VecConsIntro" || d == "ByteVecConsIntro" {
                            depth += 1;
                        } else if d == "RightParen" {
                            depth -= 1;
                        }
                    }
                    Err(_) => {
                        ok = false;
                        break;
                    }
                }
            }
            format!("OK T {} {} {}", ok as i32, depth, n)
        }
        "expect" => {
            let which = t.next();
            let v = parse_value(&mut t, &mut pool);
            let r: Result<String, SchemeError> = match which {
                "number" => v.expect_number().map(|n| show_number(&n)),
                "integer" => v.expect_integer().map(|n| format!("I {}", n)),
                "real" => v.expect_real().map(|n| format!("F {:08x}", n.to_bits())),
                "vector" => v.expect_vector().map(|_| "V".to_string()),
                "list" => v.expect_list().map(|_| "L".to_string()),
                "string" => v.expect_string().map(|s| format!("S {}", hex(&s))),
                "symbol" => v.expect_symbol().map(|s| format!("Y {}", hex(&s))),
                "procedure" => v.expect_procedure().map(|_| "P".to_string()),
                "boolean" => v.expect_boolean().map(|b| format!("B {}", b as i32)),
                _ => panic!("expect"),
            };
            match r {
                Ok(s) => format!("OK {}", s),
                Err(e) => err_kind(&e),
            }
        }
        "libs" => libs_cmd(&mut t),
        "flibs" => flibs_cmd(&mut t),
        "roundtrip" => {
            // the text display produces for a value, and what reading that text back (quoted) gives
            let v = parse_value(&mut t, &mut pool);
            let text = format!("{}", v);
            format!("OK RT {} ;; {}", hex(&text), evalforms(&format!("'{}", text), true))
        }
        "replref" => replref_cmd(&mut t),
        "scope" => scope_cmd(&mut t),
        "c18sweep" => c18sweep(t.int()),
        "refdepth" => {
            let s = unhex(t.next());
            let cs: Vec<char> = s.chars().collect();
            match c18ref::verif_ref_depth(&cs) {
                Some(d) => format!("OK R 1 {}", d),
                None => "OK R 0 0".to_string(),
            }
        }
        "tokdump" => {
            // the real lexer's token stream in a compact notation (C06 replays)
            let s = unhex(t.next());
            let lexer = Lexer::from_char_stream(s.chars());
            let mut out: Vec<String> = Vec::new();
            for tok in lexer {
                match tok {
                    Ok(tk) => out.push(match tk.data {
                        ruschm::parser::TokenData::Identifier(i) => format!("ID {}", hex(&i)),
                        ruschm::parser::TokenData::Primitive(p) => match p {
                            Primitive::Integer(i) => format!("I {}", i),
                            Primitive::Rational(a, b) => format!("Q {} {}", a, b),
                            Primitive::Real(r) => format!("R {}", hex(&r)),
                            Primitive::Boolean(b) => format!("B {}", b as i32),
                            Primitive::Character(c) => format!("C {}", c as u32),
                            Primitive::String(st) => format!("S {}", hex(&st)),
                        },
                        ruschm::parser::TokenData::LeftParen => "LP".to_string(),
                        ruschm::parser::TokenData::RightParen => "RP".to_string(),
                        other => format!("{:?}", other),
                    }),
                    Err(_) => {
                        out.push("ERR".to_string());
                        break;
                    }
                }
            }
            out.join(" ;; ")
        }
        "tokloc" => {
            // the location the real lexer attaches to each token ("line:col"), ERR for a lexical error
            let s = unhex(t.next());
            let lexer = Lexer::from_char_stream(s.chars());
            let mut out: Vec<String> = Vec::new();
            for tok in lexer {
                match tok {
                    Ok(tk) => out.push(match tk.location {
                        Some(l) => format!("{}:{}", l[0], l[1]),
                        None => "-".to_string(),
                    }),
                    Err(_) => {
                        out.push("ERR".to_string());
                        break;
                    }
                }
            }
            format!("OK LOC {}", out.join(" "))
        }
        "ping" => format!("OK pong {}", ruschm::repl::__VERIF_STAMP),
        x => format!("BADCMD {}", x),
    }
}

fn main() {
    std::panic::set_hook(Box::new(|_| {}));
    let stdin = std::io::stdin();
    let stdout = std::io::stdout();
    for line in stdin.lock().lines() {
        let line = line.unwrap();
        if line.trim().is_empty() {
            continue;
        }
        let r = catch_unwind(AssertUnwindSafe(|| run_line(&line)));
        let out = match r {
            Ok(s) => s,
            Err(p) => {
                let msg = if let Some(s) = p.downcast_ref::<String>() {
                    s.clone()
                } else if let Some(s) = p.downcast_ref::<&str>() {
                    s.to_string()
                } else {
                    "?".to_string()
                };
                format!("PANIC {}", hex(&msg))
            }
        };
        let mut o = stdout.lock();
        writeln!(o, "{}", out).unwrap();
        o.flush().unwrap();
    }
}
